#!/venv/bin/python
"""tools/seed_recheck.py <seeded-id> "<strengthening note or ''>" <prop> [<prop>...]
Re-applies /verif/seeded/<id>/patch.diff in a scratch worktree (MUTW, default /tmp/mut), runs the CURRENT checks of the given properties against it
(TIER env: quick by default), appends the outcome to meta.json (checks_run, caught_by, strengthening) and restores the worktree."""
import json
import os
import subprocess
import sys

ID, note, props = sys.argv[1], sys.argv[2], sys.argv[3:]
W = os.environ.get('MUTW', '/tmp/mut')
tier = os.environ.get('TIER', 'quick')
d = '/verif/seeded/' + ID
head = subprocess.check_output(['git', '-C', '/repo', 'rev-parse', 'HEAD'], text=True).strip()
subprocess.run(['git', '-C', W, 'checkout', '-q', '--detach', head])
subprocess.run(['git', '-C', W, 'checkout', '-q', '--', '.'])
subprocess.run(['git', '-C', W, 'clean', '-fdq'])
if subprocess.run(['git', '-C', W, 'apply', d + '/patch.diff']).returncode != 0:
    sys.exit('patch does not apply')
meta = json.load(open(d + '/meta.json'))
try:
    for p in props:
        r = subprocess.run(['/verif/check', p, '--tier', tier], env=dict(os.environ, TORCHTT_REPO=W), capture_output=True, text=True)
        keys = ' '.join([l.strip()[:200] for l in r.stdout.splitlines() if l.startswith('  key=')][:2])
        line = '%s %s(after strengthening) rc=%d %s' % (p, tier, r.returncode, keys)
        print(line[:400])
        meta.setdefault('checks_run', []).append(line)
        if r.returncode == 1 and p not in meta.get('caught_by', []):
            meta['caught_by'] = sorted(meta.get('caught_by', []) + [p])
finally:
    subprocess.run(['git', '-C', W, 'checkout', '-q', '--', '.'])
    subprocess.run(['git', '-C', W, 'clean', '-fdq'])
if note:
    meta['strengthening'] = note
json.dump(meta, open(d + '/meta.json', 'w'), indent=1)
print('caught_by', meta.get('caught_by'))
