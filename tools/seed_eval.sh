#!/bin/bash
# tools/seed_eval.sh <variant_dir> <id> <broken-prop> [more props to run]
# Confirms a seeded change in the scratch worktree /tmp/mut (demo passes without / fails with the patch, test-suite passes with it), runs the
# quick checks against the patched tree (TORCHTT_REPO=/tmp/mut), stores /verif/seeded/<id>/ {patch.diff, demo.py, note.md, meta.json}.
set -u
V="$1"; ID="$2"; shift 2; PROPS="$@"; MAIN="$1"
W=${MUTW:-/tmp/mut}
git -C $W checkout -q --detach "$(git -C /repo rev-parse HEAD)" 2>/dev/null; git -C $W checkout -q -- .; git -C $W clean -fdq
(cd $W && timeout 900 /venv/bin/python "$V/demo.py" >$W.demo0.log 2>&1); D0=$?
if ! git -C $W apply "$V/patch.diff"; then echo "PATCH DOES NOT APPLY"; exit 3; fi
(cd $W && timeout 900 /venv/bin/python "$V/demo.py" >$W.demo1.log 2>&1); D1=$?
if [ "${SKIP_TESTS:-0}" = "1" ]; then echo "skipped" > $W.tests.log; else (cd $W && OMP_NUM_THREADS=2 timeout 2400 /venv/bin/python -m pytest -q -p no:cacheprovider --timeout=900 tests/ 2>&1 | tail -1) > $W.tests.log; fi
echo "demo unpatched exit=$D0, patched exit=$D1 ($(tail -1 $W.demo1.log | cut -c1-160)); tests: $(cat $W.tests.log)"
: > $W.checks.log
for p in $PROPS; do
  out=$(TORCHTT_REPO=$W /verif/check $p --tier ${TIER:-quick} 2>&1); rc=$?
  echo "-- $p ${TIER:-quick} rc=$rc: $(echo "$out" | grep -E 'tier=' | cut -c1-140)"; echo "$out" | grep -E "^  key=" | cut -c1-300 | head -3
  echo "$p ${TIER:-quick} rc=$rc $(echo "$out" | grep -E '^  key=' | head -2 | cut -c1-200 | tr '\n' ' ')" >> $W.checks.log
done
git -C $W checkout -q -- .; git -C $W clean -fdq
mkdir -p /verif/seeded/$ID; cp "$V/patch.diff" "$V/demo.py" /verif/seeded/$ID/; [ -f "$V/note.md" ] && cp "$V/note.md" /verif/seeded/$ID/
/venv/bin/python - "$ID" "$MAIN" "$D0" "$D1" "$W" <<'PY'
import sys, json, os
ID, MAIN, D0, D1, W = sys.argv[1:6]
d = '/verif/seeded/' + ID
note = open(d + '/note.md').read() if os.path.exists(d + '/note.md') else ''
old = json.load(open(d + '/meta.json')) if os.path.exists(d + '/meta.json') else {}
checks = old.get('checks_run', [])
for l in open(W + '.checks.log'):
    l = l.strip()
    if l and l not in checks:
        checks.append(l)
meta = {'id': ID, 'breaks_property': MAIN, 'origin': 'independent sub-agent given only the property text and a scratch worktree',
        'needs_to_manifest': note.strip()[:1200],
        'confirmed': {'demo_exit_unpatched': int(D0), 'demo_exit_patched': int(D1), 'test_suite_with_patch': open(W + '.tests.log').read().strip() if open(W + '.tests.log').read().strip() != 'skipped' else old.get('confirmed', {}).get('test_suite_with_patch', 'skipped')},
        'what_was_run': 'tools/seed_eval.sh: scratch worktree /tmp/mut at /repo HEAD; demo.py before/after `git apply patch.diff`; full pytest suite with the patch; TORCHTT_REPO=/tmp/mut ./check <prop>',
        'checks_run': checks,
        'caught_by': sorted({c.split()[0] for c in checks if ' rc=1 ' in c + ' '})}
json.dump(meta, open(d + '/meta.json', 'w'), indent=1)
print('meta:', meta['confirmed'], 'caught_by', meta['caught_by'])
PY
