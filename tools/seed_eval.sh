#!/bin/bash
# tools/seed_eval.sh <variant_dir> <id> <prop> [more props]  -- confirm a seeded change in the scratch worktree /tmp/mut, run checks against it,
# and store it as /verif/seeded/<id>/ (patch.diff, demo.py, meta.json)
set -u
V="$1"; ID="$2"; shift 2; PROPS="$@"
W=/tmp/mut
git -C $W checkout -q --detach "$(git -C /repo rev-parse HEAD)" 2>/dev/null; git -C $W checkout -q -- .; git -C $W clean -fdq
echo "== demo on unmodified tree"; (cd $W && timeout 900 /venv/bin/python "$V/demo.py" >/tmp/seed_demo0.log 2>&1); D0=$?; echo "exit $D0"
if ! git -C $W apply "$V/patch.diff"; then echo "PATCH DOES NOT APPLY"; exit 3; fi
echo "== demo with patch"; (cd $W && timeout 900 /venv/bin/python "$V/demo.py" >/tmp/seed_demo1.log 2>&1); D1=$?; echo "exit $D1"; tail -3 /tmp/seed_demo1.log
echo "== test-suite with patch"; (cd $W && timeout 2400 /venv/bin/python -m pytest -q -p no:cacheprovider --timeout=900 tests/ 2>&1 | tail -1) | tee /tmp/seed_tests.log
RES=""
for p in $PROPS; do
  out=$(TORCHTT_REPO=$W /verif/check $p --tier quick 2>&1); rc=$?
  echo "-- $p quick rc=$rc: $(echo "$out" | grep -E 'tier=' | cut -c1-140)"; echo "$out" | grep -E "^  key=" | cut -c1-260 | head -3
  RES="$RES $p:quick:rc=$rc"
done
git -C $W checkout -q -- .; git -C $W clean -fdq
mkdir -p /verif/seeded/$ID; cp "$V/patch.diff" "$V/demo.py" /verif/seeded/$ID/; [ -f "$V/note.md" ] && cp "$V/note.md" /verif/seeded/$ID/
echo "SUMMARY id=$ID demo0=$D0 demo1=$D1 tests='$(cat /tmp/seed_tests.log)' checks=$RES"
