#!/bin/bash
# tools/seeded_regress.sh [ids...]  -- regression of the machinery against every kept seeded change:
# applies seeded/<id>/patch.diff in a scratch worktree of /repo (never in /repo), runs the quick check of every property listed in meta.caught_by
# with TORCHTT_REPO pointing at the scratch tree, and expects exit 1.  Prints one line per (id, property); exit 0 iff all caught.
HERE="$(cd "$(dirname "${BASH_SOURCE[0]}")/.." && pwd)"
IDS="$@"; [ -z "$IDS" ] && IDS=$(ls $HERE/seeded)
NPAR=${NPAR:-4}
run_one() {
  ID=$1; W=$2
  git -C $W checkout -q --detach "$(git -C /repo rev-parse HEAD)" 2>/dev/null; git -C $W checkout -q -- .; git -C $W clean -fdq
  if ! git -C $W apply $HERE/seeded/$ID/patch.diff 2>/dev/null; then echo "$ID - PATCH-DOES-NOT-APPLY"; return; fi
  for p in $(/venv/bin/python -c "import json;m=json.load(open('$HERE/seeded/$ID/meta.json'));print(' '.join([] if m.get('neutralised_by_fix') else m['caught_by']))"); do
    out=$(TORCHTT_REPO=$W $HERE/check $p --tier quick 2>&1); rc=$?
    echo "$ID $p rc=$rc $(echo "$out" | grep -E '^  key=' | head -1 | cut -c1-150)"
  done
  git -C $W checkout -q -- .; git -C $W clean -fdq
}
i=0
for ID in $IDS; do
  W=/tmp/regress_$((i % NPAR))
  [ -d $W ] || git -C /repo worktree add --detach $W HEAD -q
  ( flock 9; run_one $ID $W ) 9>$W.lock &
  i=$((i+1))
  if [ $((i % NPAR)) -eq 0 ]; then wait; fi
done
wait
for k in $(seq 0 $((NPAR-1))); do git -C /repo worktree remove --force /tmp/regress_$k 2>/dev/null; rm -f /tmp/regress_$k.lock; done
