#!/venv/bin/python
"""Regenerates /verif/MANIFEST.json from the property modules that exist (keeps it valid at all times)."""
import json, os, sys, importlib
HERE = os.path.dirname(os.path.dirname(os.path.abspath(__file__)))
sys.path.insert(0, HERE)
TEXT = {}
try:
    from tools import manifest_text
    TEXT = manifest_text.TEXT
    NA = manifest_text.NOT_APPLICABLE
except Exception:
    NA = []
props = [json.loads(l) for l in open(os.path.join(HERE, 'properties.jsonl'))]
checks = []
claimed = set()
for p in props:
    pid = p['id']
    if not os.path.exists(os.path.join(HERE, 'ttmon', 'props', pid.lower() + '.py')):
        continue
    t = TEXT.get(pid, {})
    claimed.add(pid)
    checks.append({
        'property_id': pid,
        'quick_cmd': './check %s --tier quick' % pid,
        'thorough_cmd': './check %s --tier thorough' % pid,
        'evidence_file': 'evidence/%s.json' % pid,
        'replay_cmd_template': './check %s --replay {path}' % pid,
        'engine': 'ttmon',
        'level_claimed': {'category': 'exploration',
                          'text': t.get('text', 'Runtime monitoring: the real torchtt is executed on generated workloads and an oracle (dense reference model / invariant monitor) observes every execution; held-on-observed only.'),
                          'design_ref': t.get('design_ref', 'DESIGN.md section 5, ' + pid)},
        'level_note': t.get('note', 'Trusted base: PyTorch dense arithmetic (float64 reshape+matmul contraction by the harness), the harness generators; verdict covers only the executions observed.'),
        'technique': t.get('technique', 'runtime monitoring: reference-model oracle at the API boundary over generated workloads'),
    })
na = [e for e in NA if e['property_id'] not in claimed]
for p in props:
    if p['id'] not in claimed and not any(e['property_id'] == p['id'] for e in na):
        na.append({'property_id': p['id'], 'reason': 'check not built yet (work in progress); applicable to runtime monitoring per DESIGN.md'})
m = {
    'version': 1,
    'setup_cmd': '(/venv/bin/pip install -q --no-index --find-links /opt/veriftools/wheels --target /verif/.deps jsonschema >/dev/null 2>&1 || true); (cd /verif && PYTHONPATH=/verif /venv/bin/python -m ttmon.cppbuild plain >/dev/null 2>&1 || true) & (cd /verif && PYTHONPATH=/verif /venv/bin/python -m ttmon.cppbuild asan >/dev/null 2>&1 || true) & wait',
    'hooks': {'guard': 'TORCHTT_VERIF', 'enable': 'no source hooks: monitors are attached from outside by monkeypatching torchtt.TT.__init__ and sys.monitoring; the guard name is reserved and unused',
              'baseline_off_cmd': 'cd /repo && /venv/bin/python -m pytest -ra -q -p no:cacheprovider --timeout=900 --continue-on-collection-errors',
              'source_commits': [], 'add_only': True},
    'engines': [{'name': 'ttmon', 'path': 'ttmon/', 'serves_properties': sorted(claimed),
                 'kind_free_text': 'runtime monitoring engine: workload generators, dense reference model, WF/IMM/REACH monitors, sharded workers with crash journal'}],
    'checks': checks,
    'not_applicable': na,
    'notes': 'Exit codes: 0 held on everything observed (KNOWN-FINDING lines possible), 1 VIOLATION, 2 INCONCLUSIVE (deciding monitor not reached / watchdog). VERIF_SEED and VERIF_TIER are honoured. Genuine defects: known_findings.json.',
}
json.dump(m, open(os.path.join(HERE, 'MANIFEST.json'), 'w'), indent=1)
print('MANIFEST.json: %d checks, %d not_applicable' % (len(checks), len(na)))
