#!/bin/bash
# tools/mut.sh '<sed-expr>' <file-relative-to-repo> <prop> [more props]   -- own mutation trial in the scratch worktree /tmp/mut
# applies the sed expression to the file in /tmp/mut (reset to /repo HEAD first), runs the quick checks against it, restores.
set -u
EXPR="$1"; FILE="$2"; shift 2
git -C /tmp/mut checkout -q --detach "$(git -C /repo rev-parse HEAD)" 2>/dev/null
git -C /tmp/mut checkout -q -- . 
sed -i -E "$EXPR" "/tmp/mut/$FILE"
if git -C /tmp/mut diff --quiet; then echo "MUTATION DID NOT APPLY"; exit 3; fi
git -C /tmp/mut diff | grep '^[+-]' | grep -v '^+++\|^---' | head -6
for p in "$@"; do
  TORCHTT_REPO=/tmp/mut /verif/check "$p" --tier quick 2>&1 | grep -E "VIOLATION|INCONCLUSIVE|tier=" | cut -c1-220 | head -4
done
git -C /tmp/mut checkout -q -- .
