#!/bin/bash
# tools/sweep.sh <tier> <seed> [props...]   -- run checks sequentially, one summary line each
TIER="$1"; SEED="$2"; shift 2
PROPS="$@"; [ -z "$PROPS" ] && PROPS="C01 C02 C03 C04 C05 C06 C07 C08 C09 C10 C11 C12 C13 C14 C15 C16 C17 C18 C19 C20"
for p in $PROPS; do
  out=$(VERIF_SEED=$SEED "$(dirname "$0")/../check" $p --tier $TIER 2>&1); rc=$?
  echo "rc=$rc $(echo "$out" | grep -E "tier=" | cut -c1-160)"
  echo "$out" | grep -E "^VIOLATION|^INCONCLUSIVE|^KNOWN-FINDING|^  key=" | cut -c1-400 | head -8
done
