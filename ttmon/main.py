"""./check <Cxx> [--tier quick|thorough] [--replay FILE] [--workers N] [--keep]

exit 0  property held on everything observed (KNOWN-FINDING lines may be printed)
exit 1  VIOLATION property=<id> replay=<path>   (a violation not listed as open in known_findings.json)
exit 2  INCONCLUSIVE property=<id> reason=...    (deciding monitor not reached / worker timed out / harness error)
"""
import sys
import os
import json
import time
import shutil
import hashlib
import argparse
import subprocess
import collections

HERE = os.path.dirname(os.path.dirname(os.path.abspath(__file__)))
REPO = os.environ.get('TORCHTT_REPO', '/repo')


def parse(argv):
    ap = argparse.ArgumentParser()
    ap.add_argument('prop')
    ap.add_argument('--tier', default=os.environ.get('VERIF_TIER') or 'quick', choices=['quick', 'thorough'])
    ap.add_argument('--replay', default=None)
    ap.add_argument('--workers', type=int, default=0)
    ap.add_argument('--keep', action='store_true', help='keep the per-run work directory')
    ap.add_argument('--limit', type=int, default=0, help='debug: only the first N cases')
    return ap.parse_args(argv)


def seed_env():
    try:
        return int(os.environ.get('VERIF_SEED', '0'))
    except ValueError:
        return 0


def replay(prop, path):
    from . import worker
    mod = worker.load_prop(prop)
    worker.setup_backend(mod)
    import torch
    torch.set_num_threads(1)
    from . import hooks
    with open(path) as f:
        rp = json.load(f)
    case = rp['case']
    mon = hooks.Monitor()
    print('REPLAY property=%s case=%s' % (prop, json.dumps(case, default=str)))
    if 'crash' in rp:
        print('  (recorded outcome: worker died with %s while running this case)' % rp['crash'])
    from .ctx import Ctx
    ctx = worker.run_one(mod, mon, prop, case, rp.get('idx', 0), rp.get('verif_seed', 0), verbose=True)
    wf, imm = mon.take_violations()
    allv = list(ctx.viols)
    if getattr(mod, 'DECIDES', None) == 'WF':
        allv += wf
    if getattr(mod, 'DECIDES', None) == 'IMM':
        allv += imm
    for v in wf + imm:
        print('  monitor observation: %s -- %s' % (v['key'], v['detail']))
    if allv:
        print('REPLAY RESULT: %d violation(s): %s' % (len(allv), sorted({v['key'] for v in allv})))
        return 1
    print('REPLAY RESULT: no violation')
    return 0


def main(argv=None):
    args = parse(argv if argv is not None else sys.argv[1:])
    prop = args.prop.upper()
    if args.replay:
        return replay(prop, args.replay)
    tier = args.tier
    seed = seed_env()
    t0 = time.time()
    from . import worker, findings, evidence
    mod = worker.load_prop(prop)

    # optional build step (C17) happens once in the parent
    build_info = None
    if hasattr(mod, 'prepare'):
        build_info = mod.prepare(tier)
        if build_info and build_info.get('inconclusive'):
            return finish_inconclusive(prop, tier, seed, t0, build_info['inconclusive'], evidence, mod)

    cases = mod.cases(tier, seed)
    if args.limit:
        os.environ['TTMON_CASE_LIMIT'] = str(args.limit)
        cases = cases[:args.limit]
    ncases = len(cases)
    nw = args.workers or min(16, os.cpu_count() or 1)
    nw = max(1, min(nw, ncases))
    work = os.path.join(HERE, '.work', '%s-%s-%d-%d' % (prop, tier, seed, os.getpid()))
    shutil.rmtree(work, ignore_errors=True)
    os.makedirs(work)
    budget = float(getattr(mod, 'RUN_TIMEOUT', {}).get(tier, 900 if tier == 'quick' else 5400))
    env = dict(os.environ)
    if hasattr(mod, 'worker_env'):
        env.update(mod.worker_env(tier))

    # ---- run the shards ---------------------------------------------------------------------------------
    # fork mode (default): the parent imports torch+torchtt once and forks the shards (16 concurrent cold
    # imports of torch cost 5-25 s of kernel time in this sandbox); subprocess mode for properties that need
    # their own import environment (C17) or on request (TTMON_SPAWN=subprocess).  Never multiprocessing.Pool.
    mode = os.environ.get('TTMON_SPAWN') or getattr(mod, 'SPAWN', 'fork')
    if mode == 'fork':
        import torch
        torch.set_num_threads(1)
        import torchtt  # noqa: F401
    procs = {}

    def spawn(shard, start_pos, gen):
        outfile = os.path.join(work, 'w%d.%d.jsonl' % (shard, gen))
        errpath = os.path.join(work, 'w%d.%d.err' % (shard, gen))
        argv = [prop, tier, str(seed), str(shard), str(nw), outfile, str(start_pos)]
        if mode == 'fork':
            sys.stdout.flush()
            sys.stderr.flush()
            pid = os.fork()
            if pid == 0:
                code = 0
                try:
                    fd = os.open(errpath, os.O_WRONLY | os.O_CREAT | os.O_TRUNC, 0o644)
                    os.dup2(fd, 1)
                    os.dup2(fd, 2)
                    worker.main(argv)
                except BaseException:
                    import traceback
                    traceback.print_exc()
                    code = 3
                finally:
                    try:
                        sys.stdout.flush()
                        sys.stderr.flush()
                    except Exception:
                        pass
                    os._exit(code)
            procs[shard] = (ForkProc(pid), outfile, gen)
        else:
            errf = open(errpath, 'w')
            p = subprocess.Popen([sys.executable, '-m', 'ttmon.worker'] + argv, cwd=HERE, env=env, stdout=errf, stderr=subprocess.STDOUT)
            errf.close()
            procs[shard] = (p, outfile, gen)

    for s in range(nw):
        spawn(s, 0, 0)
        if mode != 'fork':
            time.sleep(0.2)
    crashes = []       # (idx, description, errfile)
    timed_out = False
    restarts = collections.Counter()
    deadline = t0 + budget
    while procs:
        time.sleep(0.02)
        for s in list(procs):
            p, outfile, gen = procs[s]
            rc = p.poll()
            if rc is None:
                if time.time() > deadline:
                    p.kill()
                    p.wait()
                    timed_out = True
                    del procs[s]
                continue
            del procs[s]
            if rc != 0:
                last_s, done = None, set()
                try:
                    for line in open(outfile):
                        try:
                            o = json.loads(line)
                        except ValueError:
                            continue
                        if 's' in o:
                            last_s = o
                        elif 'i' in o:
                            done.add(o['i'])
                except FileNotFoundError:
                    pass
                desc = 'signal %d' % (-rc) if rc < 0 else 'exit code %d' % rc
                errfile = os.path.join(work, 'w%d.%d.err' % (s, gen))
                if last_s is not None and last_s['s'] not in done:
                    crashes.append((last_s['s'], desc, errfile))
                    restarts[s] += 1
                    if restarts[s] <= 50:
                        spawn(s, last_s['pos'] + 1, gen + 1)
                else:
                    crashes.append((None, desc + ' outside any case (worker start-up/tear-down)', errfile))

    # ---- aggregate -----------------------------------------------------------------------------------
    agg = Agg()
    for fn in sorted(os.listdir(work)):
        if fn.endswith('.jsonl'):
            agg.read(os.path.join(work, fn))
    res = decide(prop, tier, seed, mod, cases, agg, crashes, timed_out, t0, findings, evidence, build_info, work)
    if not args.keep:
        shutil.rmtree(work, ignore_errors=True)
    return res


class ForkProc:
    def __init__(self, pid):
        self.pid = pid
        self.rc = None

    def poll(self):
        if self.rc is None:
            pid, st = os.waitpid(self.pid, os.WNOHANG)
            if pid != 0:
                self.rc = -os.WTERMSIG(st) if os.WIFSIGNALED(st) else os.WEXITSTATUS(st)
        return self.rc

    def kill(self):
        try:
            os.kill(self.pid, 9)
        except ProcessLookupError:
            pass

    def wait(self):
        while self.poll() is None:
            time.sleep(0.01)
        return self.rc


class Agg:
    def __init__(self):
        self.done = {}
        self.reach_calls = collections.Counter()
        self.reach_lines = collections.defaultdict(set)
        self.reach_exec = collections.defaultdict(set)
        self.counters = collections.Counter()
        self.calllog = []
        self.times = []

    def read(self, path):
        last_summary = None
        for line in open(path):
            try:
                o = json.loads(line)
            except ValueError:
                continue
            if o.get('summary'):
                last_summary = o
            elif 'i' in o:
                self.done[o['i']] = o
        if last_summary:
            for k, v in last_summary['reach']['calls'].items():
                self.reach_calls[k] += v
            for k, v in last_summary['reach']['lines'].items():
                self.reach_lines[k].update(v)
            for k, v in last_summary['reach'].get('executable', {}).items():
                self.reach_exec[k].update(v)
            for k, v in last_summary['counters'].items():
                self.counters[k] += v
            if len(self.calllog) < 12:
                self.calllog += last_summary['calllog'][:4]


def write_replay(prop, case, idx, seed, extra):
    d = os.path.join(HERE, 'replay')
    os.makedirs(d, exist_ok=True)
    body = {'property': prop, 'case': case, 'idx': idx, 'verif_seed': seed}
    body.update(extra)
    h = hashlib.sha256(json.dumps(body, sort_keys=True, default=str).encode()).hexdigest()[:12]
    path = os.path.join(d, '%s-%s.json' % (prop, h))
    with open(path, 'w') as f:
        json.dump(body, f, indent=1, default=str)
    return os.path.relpath(path, HERE)


def finish_inconclusive(prop, tier, seed, t0, reason, evidence, mod):
    print('INCONCLUSIVE property=%s reason=%s' % (prop, reason))
    return 2


def decide(prop, tier, seed, mod, cases, agg, crashes, timed_out, t0, findings, evidence, build_info, work):
    decides = getattr(mod, 'DECIDES', None)       # 'WF' for C05, 'IMM' for C06
    known = findings.open_keys(prop)
    viol_by_key = collections.OrderedDict()       # key -> list of (idx, detail)
    cross = collections.Counter()
    sigs = set()
    metrics = {}
    counts = collections.Counter()
    errors, timeouts = [], []
    for idx in sorted(agg.done):
        o = agg.done[idx]
        if o['st'] == 'error':
            errors.append((idx, o.get('tb', '')))
            continue
        if o['st'] == 'timeout':
            timeouts.append(idx)
            continue
        for v in o.get('v', []):
            viol_by_key.setdefault(v['key'], []).append((idx, v['detail']))
        for name, lst in (('WF', o.get('wf', [])), ('IMM', o.get('imm', []))):
            for v in lst:
                if decides == name:
                    viol_by_key.setdefault(v['key'], []).append((idx, v['detail']))
                else:
                    cross[v['key']] += 1
        sigs.update(o.get('g', []))
        for k, v in o.get('m', {}).items():
            if k not in metrics or v > metrics[k]:
                metrics[k] = v
        for k, v in o.get('c', {}).items():
            counts[k] += v
    for idx, desc, errfile in crashes:
        if idx is None:
            errors.append((-1, 'worker died: ' + desc))
        else:
            c = cases[idx]
            key = '%s/%s' % (prop, mod.crash_key(c, desc) if hasattr(mod, 'crash_key') else 'worker-crash/%s/%s' % (c.get('gen', '?'), desc.replace(' ', '')))
            tail = ''
            try:
                tail = open(errfile).read()[-600:]
            except OSError:
                pass
            viol_by_key.setdefault(key, []).append((idx, 'worker process died (%s) while running this case; stderr tail: %s' % (desc, tail)))

    extra_cases = {}
    if hasattr(mod, 'extra_violations'):
        for key, detail, case in mod.extra_violations(build_info):
            eidx = -(len(extra_cases) + 2)
            extra_cases[eidx] = case
            viol_by_key.setdefault(key, []).append((eidx, detail))

    def case_of(i):
        return cases[i] if i >= 0 else extra_cases.get(i, {})

    evaluations = len(agg.done)
    # ---- reach gate ----------------------------------------------------------------------------------
    required = list(getattr(mod, 'REQUIRED_REACH', []))
    reach_req = {}
    missing = []
    for name in required:
        alts = name.split('|')
        n = sum(agg.reach_calls.get(a, 0) for a in alts)
        reach_req[name] = n
        if n == 0:
            missing.append(name)
    required_counts = dict(getattr(mod, 'REQUIRED_COUNTS', {}))
    missing_counts = [k for k, need in required_counts.items() if counts.get(k, 0) + agg.counters.get(k, 0) < need]
    min_nontrivial = getattr(mod, 'MIN_NONTRIVIAL', {}).get(tier, 2) if isinstance(getattr(mod, 'MIN_NONTRIVIAL', None), dict) else 2

    # ---- classify ------------------------------------------------------------------------------------
    new_viol, known_hit = [], []
    for key, lst in viol_by_key.items():
        if key in known:
            known_hit.append((key, lst))
        else:
            new_viol.append((key, lst))
    out_lines = []
    for key, lst in known_hit:
        out_lines.append('KNOWN-FINDING: property=%s %s -- %s (%d occurrence(s) this run)' % (prop, key, known[key].get('what', ''), len(lst)))
    replay_paths = []
    for key, lst in new_viol:
        idx, detail = lst[0]
        path = write_replay(prop, case_of(idx), idx, seed, {'key': key, 'detail': detail, 'occurrences': len(lst)})
        replay_paths.append(path)
        out_lines.append('VIOLATION property=%s replay=%s' % (prop, path))
        out_lines.append('  key=%s occurrences=%d first: %s' % (key, len(lst), detail[:400]))

    reasons = []
    if errors:
        reasons.append('harness-error in %d case(s): %s' % (len(errors), errors[0][1].strip().splitlines()[-1] if errors[0][1] else '?'))
    if timed_out:
        reasons.append('run watchdog fired (%d/%d cases finished)' % (evaluations, len(cases)))
    if timeouts:
        frac = len(timeouts) / max(1, len(cases))
        if frac > getattr(mod, 'MAX_TIMEOUT_FRACTION', 0.02):
            reasons.append('%d case(s) hit the per-case watchdog' % len(timeouts))
    if evaluations + len(crashes) < len(cases) and not timed_out and not errors:
        reasons.append('only %d of %d cases were evaluated' % (evaluations, len(cases)))
    if missing:
        reasons.append('required code not reached: ' + ','.join(missing))
    if missing_counts:
        reasons.append('required events not observed: ' + ','.join(missing_counts))
    if hasattr(mod, 'extra_reasons'):
        reasons += list(mod.extra_reasons(build_info) or [])
    if len(sigs) < min_nontrivial:
        reasons.append('too few non-trivial cases (%d < %d)' % (len(sigs), min_nontrivial))

    # ---- evidence ------------------------------------------------------------------------------------
    samples = []
    step = max(1, len(cases) // 5)
    for idx in list(range(0, len(cases), step))[:5]:
        o = agg.done.get(idx)
        samples.append({'case': cases[idx], 'outcome': (o or {}).get('st', 'not-run'),
                        'violations': [v['key'] for v in (o or {}).get('v', [])],
                        'metrics': (o or {}).get('m', {})})
    anchored_lines = {k: len(v) for k, v in agg.reach_lines.items() if v}
    never = {k: sorted(agg.reach_exec[k] - agg.reach_lines.get(k, set())) for k in agg.reach_exec}
    never = {k: v for k, v in never.items() if v}
    cov = {
        'evaluations': evaluations,
        'distinct_nontrivial': len(sigs),
        'rule': getattr(mod, 'RULE', ''),
        'samples': samples,
        'cases_generated': len(cases),
        'events_observed': dict(sorted(counts.items())),
        'monitor_counters': {k: v for k, v in sorted(agg.counters.items()) if not k.startswith('op:')},
        'boundary_ops_histogram': {k[3:]: v for k, v in sorted(agg.counters.items()) if k.startswith('op:')},
        'max_observed': {k: metrics[k] for k in sorted(metrics)},
        'required_reach_calls': reach_req,
        'anchored_functions_distinct_lines_executed': anchored_lines,
        'anchored_functions_lines_never_executed': never,
        'torchtt_functions_executed': len([k for k, v in agg.reach_calls.items() if v]),
        'boundary_event_samples': agg.calllog[:8],
        'violations_new': [{'key': k, 'occurrences': len(l), 'first': l[0][1][:300]} for k, l in new_viol],
        'known_findings_observed': [{'key': k, 'occurrences': len(l)} for k, l in known_hit],
        'cross_property_observations': dict(cross),
        'case_watchdog_timeouts': len(timeouts),
        'slowest_cases_s': sorted([(round(o.get('t', 0), 2), cases[i].get('gen'), str(cases[i].get('ops') or cases[i].get('op') or cases[i].get('kind') or '')) for i, o in agg.done.items()], reverse=True)[:5],
        'verdict': 'violated' if new_viol else ('inconclusive' if reasons else 'held-on-observed'),
        'inconclusive_reasons': reasons,
    }
    if build_info:
        def strip(o):
            if isinstance(o, dict):
                return {k: strip(v) for k, v in o.items() if not str(k).startswith('_')}
            return o
        cov['build'] = strip(build_info)
    if hasattr(mod, 'extra_evidence'):
        cov.update(mod.extra_evidence(agg, counts, metrics) or {})
    wall = time.time() - t0
    evidence.write(prop, tier, seed, cov, getattr(mod, 'ASSUMPTIONS', []), wall, len(new_viol))

    for l in out_lines:
        print(l)
    print('%s tier=%s seed=%d: %d cases, %d distinct non-trivial, %d new violation key(s), %d known finding(s), %.1fs' %
          (prop, tier, seed, evaluations, len(sigs), len(new_viol), len(known_hit), wall))
    if cross:
        print('  cross-property monitor observations (not deciding here): %s' % dict(cross))
    if new_viol:
        return 1
    if reasons:
        print('INCONCLUSIVE property=%s reason=%s' % (prop, '; '.join(reasons)))
        for idx, tb in errors[:3]:
            print('--- harness error in case %s ---\n%s' % (idx, tb))
        return 2
    return 0


def guarded():
    """A defect of the harness itself must never look like a verdict: exit 2 (inconclusive), never 1."""
    try:
        return main()
    except SystemExit:
        raise
    except BaseException:
        import traceback
        traceback.print_exc()
        prop = sys.argv[1].upper() if len(sys.argv) > 1 else '?'
        print('INCONCLUSIVE property=%s reason=harness error in the parent process (see traceback above)' % prop)
        return 2


if __name__ == '__main__':
    sys.exit(guarded())
