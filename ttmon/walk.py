"""Operation alphabet + random / bounded-exhaustive call sequences over a pool of TT objects.

Shared by C05 (WF monitor decides) and C06 (IMM monitor decides).  All library calls go through ctx.lib so
that every return to the harness is a quiescent point.  Operations whose preconditions fail raise - that is
expected here (C18's business) and the walk continues.  The walk is size-guarded: objects of order > 6,
dense size > 2e4 or rank > 24 are not fed back into the pool.
"""
import random
import torch

from . import dense as dn
from . import gens
from .ctx import Raised

MAX_ORDER, MAX_NUMEL, MAX_RANK, POOL = 6, 20000, 24, 10
STEP_TIMEOUT = 20.0
VIEWS = ['plain', 'slice', 't', 'conj', 'sum', 'to_ttm', 'detach', 'clone-of-view', 'buffer', 'tracked-result']


class Walker:
    def __init__(self, ctx, seed, dtype=torch.float64, views=False, nswp=3, judge=()):
        import torchtt
        self.tt = torchtt
        self.ctx = ctx
        self.rng = random.Random(seed)
        self.g = gens.tgen(seed)
        self.dt = dtype
        self.pool = []
        self.views = views          # produce fresh operands through view-producing operations
        self.view_rot = 0
        self.nswp = nswp
        self.trace = []             # op names, for signatures
        self.keep = []              # bases of view-produced operands stay alive, so that aliasing between base and view is observable
        self.derived = 0
        self.recent = []            # (name, built) of recently judged calls: repeat() re-issues one after an in-place change of an operand
        self._force = None
        self.last = None
        self._same_shape = False
        self.judge = set(judge)     # operation names whose returned VALUE is compared with a dense model of the operands as they are at the call (history oracle)

    # ---- operand supply -------------------------------------------------------------------------------
    def small_shape(self, dmax=4):
        d = self.rng.randint(1, dmax)
        return [self.rng.choice((1, 2, 2, 3, 3, 4)) for _ in range(d)]

    def fresh(self, N, M=None, R=None, vals='gauss', view=None):
        """A new TT of the given structure; optionally produced through a view-producing operation."""
        d = len(N)
        R = R or [1] + [self.rng.randint(1, 3) for _ in range(d - 1)] + [1]
        if view is None:
            view = 'plain'
            if self.views:
                view = VIEWS[self.view_rot % len(VIEWS)]
                self.view_rot += 1
        c = self.ctx
        mk = gens.make_tt

        def base(*a, **k):
            b = mk(*a, **k)
            self.keep.append(b)
            if len(self.keep) > 24:
                self.keep.pop(0)
            return b
        if view == 'slice':
            big = base([n + 1 for n in N], R, self.dt, vals, self.g, M=[m + 1 for m in M] if M else None)
            idx = tuple(slice(0, m) for m in M) + tuple(slice(1, n + 1) for n in N) if M else tuple(slice(1, n + 1) for n in N)
            r = c.lib('getitem', lambda t: t[idx], big)
        elif view == 't' and M:
            r = c.lib('t', lambda t: t.t(), base(M, R, self.dt, vals, self.g, M=N))
        elif view == 'conj':
            r = c.lib('conj', lambda t: t.conj(), base(N, R, self.dt, vals, self.g, M=M))
        elif view == 'sum' and d < MAX_ORDER:
            k = self.rng.randint(0, d)
            N2 = N[:k] + [2] + N[k:]
            M2 = (M[:k] + [2] + M[k:]) if M else None
            R2 = (R[:k + 1] + [self.rng.randint(1, 2)] + R[k + 1:]) if k < d else (R[:d] + [self.rng.randint(1, 2), 1])
            r = c.lib('sum', lambda t: t.sum(k), base(N2, R2, self.dt, vals, self.g, M=M2))
            if isinstance(r, self.tt.TT) and (list(r.N) != list(N) or (M and list(r.M) != list(M))):
                r = None       # singleton modes were dropped by reduce_dims: not the requested structure
        elif view == 'to_ttm' and M and all(n == 1 for n in N):
            r = c.lib('to_ttm', lambda t: t.to_ttm(), base(M, R, self.dt, vals, self.g))
        elif view == 'detach':
            r = c.lib('detach', lambda t: t.detach(), base(N, R, self.dt, vals, self.g, M=M))
        elif view == 'buffer':
            # all cores are views into one flat buffer (uniform interior structure half of the time: equal shapes and strides, different offsets)
            if self.rng.random() < 0.5 and d >= 3:
                R = [1] + [R[1]] * (d - 1) + [1]
                N = [N[0]] * d
                M = [M[0]] * d if M else None
            r = self.tt.TT(gens.buffer_views(gens.make_cores(N, R, self.dt, vals, self.g, M=M)))
        elif view == 'tracked-result':
            # the operand is a RESULT computed from a watched TT: its cores are non-leaf tensors of an autograd graph (what every intermediate of a training step is)
            b0 = base(N, R, self.dt, vals, self.g, M=M)
            c.lib('grad.watch', lambda t: self.tt.grad.watch(t), b0, inplace=(b0,))
            r = c.lib('TT*scalar', lambda t: t * 3.0, b0)
        elif view == 'clone-of-view':
            r = c.lib('conj', lambda t: t.conj(), gens.make_tt(N, R, self.dt, vals, self.g, M=M))
            if isinstance(r, self.tt.TT):
                r = c.lib('clone', lambda t: t.clone(), r)
        else:
            r = gens.make_tt(N, R, self.dt, vals, self.g, M=M)
            view = 'plain'
        if not isinstance(r, self.tt.TT):
            r = gens.make_tt(N, R, self.dt, vals, self.g, M=M)
            view = 'plain'
        if view != 'plain':
            self.derived += 1
            self.ctx.count('operand_via_view:' + view)
        return r

    def pick(self, kind=None):
        """An object from the pool (kind 'tt' / 'ttm' / None), else a fresh one."""
        if self._force is not None:
            f, self._force = self._force, None
            if kind is None or f.is_ttm == (kind == 'ttm'):
                return f
        cands = [o for o in self.pool if kind is None or (o.is_ttm == (kind == 'ttm'))]
        if cands and not (self.views and self.rng.random() < 0.5):
            return self.rng.choice(cands)
        N = self.small_shape()
        M = self.small_shape(len(N))[:len(N)] if (kind == 'ttm' or (kind is None and self.rng.random() < 0.3)) else None
        if M is not None and len(M) < len(N):
            M = (M + [2] * len(N))[:len(N)]
        return self.fresh(N, M)

    def like(self, x, N=None, M=None, ttm=None):
        """An operand with x's kind/shape (or the given shape), from the pool when one matches, else fresh."""
        ttm = x.is_ttm if ttm is None else ttm
        N = list(x.N) if N is None else N
        M = (list(x.M) if x.is_ttm else None) if (M is None and ttm == x.is_ttm) else M
        if ttm and M is None:
            M = list(N)
        if ttm == x.is_ttm and list(x.N) == N and (not ttm or list(x.M) == M) and self.rng.random() < 0.08:
            self.ctx.count('same_object_as_both_operands')
            return x                # THE SAME object in two argument positions (x - x, cat((x, x)), dot(x, x) ...)
        cands = [o for o in self.pool if o is not x and o.is_ttm == ttm and list(o.N) == N and (not ttm or list(o.M) == M)]
        if cands and self.rng.random() < 0.5 and not self.views:
            return self.rng.choice(cands)
        return self.fresh(N, M if ttm else None)

    def guess(self, x, N=None, M=None, ttm=None):
        """An initial guess for an iterative routine: usually like(); in a quarter of the draws a degenerate one the library itself hands out or a user would
        write - the zero tensor, a tensor with one exactly zero core, all ones (such guesses must neither be modified nor spoil the result)."""
        u = self.rng.random()
        if u >= 0.25:
            return self.like(x, N=N, M=M, ttm=ttm)
        ttm = x.is_ttm if ttm is None else ttm
        N = list(x.N) if N is None else list(N)
        M = ((list(x.M) if x.is_ttm else list(N)) if M is None else list(M)) if ttm else None
        self.ctx.count('degenerate_initial_guess')
        if u < 0.08:
            return self.fresh(N, M, vals='zero', view='plain')
        if u < 0.17:
            b = self.fresh(N, M, view='plain')
            j = self.rng.randrange(len(N))
            return self.tt.TT([torch.zeros_like(c) if k == j else c.clone() for k, c in enumerate(b.cores)])
        return self.tt.ones(N, dtype=self.dt) if not ttm else self.fresh(N, M, R=[1] * (len(N) + 1), view='plain')

    def admit(self, r):
        tt = self.tt
        if isinstance(r, (list, tuple)):
            for e in r:
                self.admit(e)
            return
        if not isinstance(r, tt.TT) or len(r.cores) == 0:
            return
        try:
            N = list(r.N)
            numel = dn.prod(N) * (dn.prod(r.M) if r.is_ttm else 1)
            if len(N) > MAX_ORDER or numel > MAX_NUMEL or max(int(v) for v in r.R) > MAX_RANK or numel == 0:
                self.ctx.count('not_fed_back_size_guard')
                return
            if not all(torch.isfinite(c).all() for c in r.cores):
                self.ctx.count('not_fed_back_nonfinite')
                return
            if any(c.dtype != self.dt for c in r.cores):
                self.ctx.count('not_fed_back_other_dtype')     # a walk keeps one dtype: mixing dtypes is not part of C05/C06
                return
        except Exception:
            return      # unreadable (ill-formed) object: the monitor has reported it; do not feed back
        self.pool.append(r)
        if len(self.pool) > POOL:
            self.pool.pop(self.rng.randrange(len(self.pool) - 1))

    # ---- one step -------------------------------------------------------------------------------------
    def repeat(self):
        """call; in-place change of one operand (set_core / raw core write); THE SAME call again, judged against the operand's current value:
        a result memoised on the object (or on its identity) and not invalidated by the change is stale here."""
        if not self.recent:
            return None
        name, built, sig = self.rng.choice(self.recent)
        tts = [a for a in built[2] if isinstance(a, self.tt.TT)]
        if not tts:
            return None
        if sig != self._struct(built[2]):
            # an operand was restructured in place since the call was built (reduce_dims, a resizing set_core): the closures of the call describe the old
            # structure - not a repeat of "the same call" any more
            self.ctx.count('history_repeat_skipped_operand_restructured')
            return None
        self._force = self.rng.choice(tts)
        self._same_shape = True
        try:
            self.step(self.rng.choice(('set_core', 'core_write', 'core_write')))      # values change, structure stays
        finally:
            self._force = None
            self._same_shape = False
        if sig != self._struct(built[2]):
            return None
        self.ctx.count('history_repeat_after_inplace')
        return self.step(name, built=built)

    def _struct(self, args):
        out = []
        for a in args:
            if isinstance(a, self.tt.TT):
                try:
                    out.append((bool(a.is_ttm), tuple(int(n) for n in a.N), tuple(int(m) for m in a.M) if a.is_ttm else (), tuple(int(r) for r in a.R)))
                except Exception:
                    out.append(None)
        return out

    def again(self, then_edit=False):
        """THE SAME call once more on unchanged operands (a second, independent result is due); optionally the second result is then edited in place
        (set_core), which must leave the first one alone."""
        if self.last is None:
            return None
        name, built, sig = self.last
        if sig != self._struct(built[2]) or name in ('set_core', 'reduce_dims', 'scribble', 'core_write', 'watch', 'set_core_rejected'):
            return None
        self.ctx.count('same_call_again')
        r = self.step(name, built=built)
        if then_edit and isinstance(r, self.tt.TT) and len(r.cores) > 0:
            self._force, self._same_shape = r, True
            try:
                self.step('set_core')
            finally:
                self._force, self._same_shape = None, False
        return r

    def step(self, opname=None, built=None):
        name = opname or self.rng.choice(OP_NAMES)
        fn = OPS[name]
        if built is None:
            try:
                built = fn(self)
            except _NA:
                self.ctx.count('op_not_applicable')
                return None
        if built is None:
            return None
        label, f, args, kw = built[0], built[1], built[2], dict(built[3] if len(built) > 3 else {})
        self.last = (name, built, self._struct(args))
        if name in self.judge and '_model' in kw:
            self.recent.append((name, built, self._struct(args)))
            if len(self.recent) > 6:
                self.recent.pop(0)
        inplace = kw.pop('_inplace', ())
        model = kw.pop('_model', None)
        expect = None
        if model is not None and name in self.judge:
            try:
                dargs = [dn.D(a) if isinstance(a, self.tt.TT) else a for a in args]
                expect = model(*dargs)          # (reference, scale, eps-allowance, strict-shape) computed BEFORE the call
                sr = [dn.s_rep(a) if isinstance(a, self.tt.TT) else (_n(a) if torch.is_tensor(a) else 1.0) for a in args]
                srep_in = max(sum(sr), dn.prod(sr), max(sr + [0.0]) ** 2)      # generous size of what is added / multiplied (this oracle is after stale or aliased state, not ulps)
            except Exception:
                expect = None                   # operands the harness cannot contract (ill-formed: the WF monitor reports those)
                self.ctx.count('history_model_not_evaluable')
        # step-level watchdog inside the case-level one: a hanging operation is recorded and the walk goes on
        import signal
        import time
        from .ctx import CaseTimeout
        remaining, _ = signal.getitimer(signal.ITIMER_REAL)
        t0 = time.time()
        if remaining == 0 or remaining > STEP_TIMEOUT:
            signal.setitimer(signal.ITIMER_REAL, STEP_TIMEOUT)
        try:
            r = self.ctx.lib(label, f, *args, inplace=inplace, **kw)
        except CaseTimeout:
            left = remaining - (time.time() - t0) if remaining else 0
            if remaining and left <= 0.5:
                raise
            self.ctx.count('step_watchdog_fired:' + label)
            r = None
            if remaining:
                signal.setitimer(signal.ITIMER_REAL, left)
            return None
        finally:
            if remaining:
                left = remaining - (time.time() - t0)
                signal.setitimer(signal.ITIMER_REAL, max(left, 0.01))
            else:
                signal.setitimer(signal.ITIMER_REAL, 0)
        self.trace.append(label)
        if isinstance(r, Raised):
            self.ctx.count('step_raised')
            self.ctx.count('raised_then_wf_checked')     # the quiescent-point checks (WF over all live objects) ran after the exceptional return
            self.ctx.count('raised:' + r.type)
            return r
        self.ctx.count('step_returned')
        if expect is not None:
            self._judge(label, expect, r, args, srep_in)
        self.admit(r)
        from .hooks import signature
        self.ctx.nontrivial((label, signature(r), tuple(signature(a) for a in args[:3])))
        return r


    def _judge(self, label, expect, r, args, srep_in):
        from .hooks import signature
        ref, scale, eps_allow, strict = expect
        ctx = self.ctx
        try:
            got = dn.D(r) if isinstance(r, self.tt.TT) else (torch.as_tensor(r) if not isinstance(r, (int, float, complex)) else torch.tensor(r, dtype=torch.complex128 if isinstance(r, complex) else torch.float64)).detach()
        except Exception as e:
            ctx.viol('history/%s/clause=ill-formed-result' % label, '%s after %s: %s' % (label, self.trace[-6:], e))
            return
        if not torch.is_tensor(ref):
            ref = torch.tensor(ref, dtype=torch.complex128 if isinstance(ref, complex) else torch.float64)
        ctx.count('history_value_checks')
        ctx.count('history_value_checks:' + label)
        what = '%s on %s after the history %s' % (label, [signature(a) if isinstance(a, self.tt.TT) else type(a).__name__ for a in args[:3]], self.trace[-8:])
        gs, rs = (list(got.shape), list(ref.shape)) if strict else (list(got.squeeze().shape), list(ref.squeeze().shape))
        if gs != rs:
            ctx.viol('history/%s/clause=shape' % label, '%s: result shape %s, dense model %s' % (what, list(got.shape), list(ref.shape)))
            return
        u = dn.ueps(self.dt)
        gotc, refc = got.reshape(-1).to(torch.complex128), ref.reshape(-1).to(torch.complex128)
        err = float(torch.linalg.norm(gotc - refc))
        nref = float(torch.linalg.norm(refc))
        srep_out = dn.s_rep(r) if isinstance(r, self.tt.TT) else 0.0
        allow = 1e4 * u * (float(scale) + nref + srep_out + srep_in) + eps_allow
        if not err <= allow:
            ctx.viol('history/%s/clause=value' % label, '%s: ||got - model|| = %.3e > allowance %.3e (||model|| = %.3e)' % (what, err, allow, nref))
        elif nref > 0:
            ctx.nontrivial(('history', label, tuple(self.trace[-3:]), tuple(gs)))


class _NA(Exception):
    pass


def _n(t):
    return float(torch.linalg.norm(t.reshape(-1).to(torch.complex128))) if torch.is_tensor(t) else abs(t)


def _m(ref, scale=0.0, eps_allow=0.0, strict=True):
    return (ref, scale, eps_allow, strict)


OPS = {}


def op(name):
    def deco(f):
        OPS[name] = f
        return f
    return deco


def _rand_index(w, x):
    rng = w.rng
    per = []
    for n in x.N:
        k = rng.random()
        if k < 0.3:
            per.append(rng.randrange(-n, n))
        elif k < 0.55:
            per.append(slice(None))
        elif k < 0.75:
            a = rng.randrange(n)
            per.append(slice(a, a + 1))
        elif k < 0.9:
            per.append(rng.choice([slice(None, None, 2), slice(-2, None, 2), slice(-n, None, 2), slice(1, -1, 2)]) if n >= 3 else slice(None, None, 2))
        else:
            per.append(slice(0, max(1, n - 1)))
    d = len(per)
    if rng.random() < 0.15:
        k = rng.randint(0, d)
        toks = ([Ellipsis] + per[d - k:]) if rng.random() < 0.5 else (per[:k] + [Ellipsis])
    else:
        toks = list(per)
    out = []
    for t in toks:
        if rng.random() < 0.1 and t is not Ellipsis:
            out.append(None)
        out.append(t)
    if rng.random() < 0.1 and (not out or out[-1] is not Ellipsis):
        out.append(None)
    return tuple(out)


# ---- constructors / factories ----------------------------------------------------------------------------------------
@op('TT(dense)')
def _(w):
    N = w.small_shape()
    A = gens.values(N, w.dt, 'gauss', w.g)
    return 'TT(dense)', lambda a: w.tt.TT(a, eps=w.rng.choice((1e-12, 1e-2, 0.3))), (A,)


@op('TT(dense,shape)')
def _(w):
    N = w.small_shape(3)
    M = [w.rng.choice((1, 2, 3)) for _ in N]
    A = gens.values(M + N, w.dt, 'gauss', w.g)
    return 'TT(dense,shape)', lambda a: w.tt.TT(a, [(m, n) for m, n in zip(M, N)], eps=w.rng.choice((1e-12, 0.2))), (A,)


@op('TT(x.cores)')
def _(w):
    """A second object built from the core LIST of an existing one (the caller hands `x.cores` itself, or a copy of the list): the two objects share core tensors - as documented for
    the constructor - but not the list, so a later set_core on either must leave the other alone."""
    x = w.pick()
    if w.rng.random() < 0.5:
        return 'TT(x.cores)', lambda a: w.tt.TT(a.cores), (x,), {'_model': lambda a: _m(a, _n(a))}
    return 'TT(list(x.cores))', lambda a: w.tt.TT(list(a.cores)), (x,), {'_model': lambda a: _m(a, _n(a))}


@op('TT(numpy)')
def _(w):
    N = w.small_shape()
    A = gens.values(N, w.dt, 'gauss', w.g).numpy()
    return 'TT(numpy)', lambda a: w.tt.TT(a, eps=1e-10, rmax=w.rng.choice((1, 2, 100))), (A,)


@op('factory')
def _(w):
    N = w.small_shape()
    which = w.rng.choice(['ones', 'zeros', 'eye', 'random', 'randn', 'rank1TT', 'ones_ttm', 'random_ttm', 'meshgrid', 'xfun', 'arange'])
    tt = w.tt
    if which == 'ones':
        return 'ones', lambda: tt.ones(N, dtype=w.dt), ()
    if which == 'zeros':
        return 'zeros', lambda: tt.zeros(N, dtype=w.dt), ()
    if which == 'eye':
        return 'eye', lambda: tt.eye(N, dtype=w.dt), ()
    if which == 'random':
        return 'random', lambda: tt.random(N, w.rng.randint(1, 3), dtype=w.dt), ()
    if which == 'randn':
        R = [1] + [w.rng.randint(1, 3) for _ in N[1:]] + [1]
        return 'randn', lambda: tt.randn(N, R, dtype=w.dt), ()
    if which == 'rank1TT':
        return 'rank1TT', lambda: tt.rank1TT([gens.values([n], w.dt, 'gauss', w.g) for n in N]), ()
    if which == 'ones_ttm':
        return 'ones', lambda: tt.ones([(n, w.rng.choice((1, 2))) for n in N], dtype=w.dt), ()
    if which == 'random_ttm':
        return 'random', lambda: tt.random([(w.rng.choice((1, 2, 3)), n) for n in N], 2, dtype=w.dt), ()
    if which == 'meshgrid':
        return 'meshgrid', lambda: tt.meshgrid([gens.values([n], w.dt, 'gauss', w.g) for n in N]), ()
    if which == 'xfun':
        from torchtt import _extras
        return 'xfun', lambda: _extras.xfun(N, dtype=w.dt), ()
    from torchtt import _extras
    n = dn.prod(N)
    return 'arange', lambda: _extras.arange(N, 0, n, 1, dtype=w.dt), ()


# ---- algebra ---------------------------------------------------------------------------------------------------------
@op('add')
def _(w):
    x = w.pick()
    return 'TT+TT', lambda a, b: a + b, (x, w.like(x)), {'_model': lambda a, b: _m(a + b, _n(a) + _n(b))}


@op('sub')
def _(w):
    x = w.pick()
    return 'TT-TT', lambda a, b: a - b, (x, w.like(x)), {'_model': lambda a, b: _m(a - b, _n(a) + _n(b))}


@op('mul')
def _(w):
    x = w.pick()
    return 'TT*TT', lambda a, b: a * b, (x, w.like(x)), {'_model': lambda a, b: _m(a * b, _n(a) * _n(b))}


@op('bcast')
def _(w):
    x = w.pick('tt')
    d = len(x.N)
    k = w.rng.randint(1, d)
    N2 = [n if w.rng.random() < 0.6 else 1 for n in x.N[d - k:]]
    o = w.rng.choice(['+', '-', '*'])
    fo = {'+': lambda a, b: a + b, '-': lambda a, b: a - b, '*': lambda a, b: a * b}[o]
    return 'TT%sTT(broadcast)' % o, fo, (x, w.fresh(N2)), {'_model': lambda a, b: _m(fo(a, b), (_n(a) * _n(b)) if o == '*' else (_n(a) + _n(b) * (a.numel() / max(1, b.numel())) ** 0.5))}


@op('scalar')
def _(w):
    x = w.pick()
    s = w.rng.choice([2, -1.5, 0, 0.5, torch.tensor(2.0, dtype=w.dt), torch.tensor([0.25], dtype=w.dt)])
    o = w.rng.choice(['x+s', 's+x', 'x-s', 's-x', 'x*s', 's*x', 'x/s', 'x+=s', 'x-=s', 'x*=s', 'x/=s'])

    def aug(sym):
        # augmented assignment on a second reference to the operand (python falls back to y = y <op> s: a NEW object; the operand must not move)
        def f_(a):
            y = a
            if sym == '+':
                y += s
            elif sym == '-':
                y -= s
            elif sym == '*':
                y *= s
            else:
                y /= s
            return y
        return f_
    f = {'x+s': lambda a: a + s, 's+x': lambda a: s + a, 'x-s': lambda a: a - s, 's-x': lambda a: s - a, 'x*s': lambda a: a * s, 's*x': lambda a: s * a, 'x/s': lambda a: a / s,
         'x+=s': aug('+'), 'x-=s': aug('-'), 'x*=s': aug('*'), 'x/=s': aug('/')}[o]
    if o in ('x/s', 'x/=s') and (torch.is_tensor(s) and float(s.reshape(-1)[0]) == 0 or (not torch.is_tensor(s) and s == 0)):
        raise _NA()
    sv = complex(s.reshape(-1)[0]) if torch.is_tensor(s) else s
    sv = sv.real if isinstance(sv, complex) and sv.imag == 0 else sv
    fm = {'x+s': lambda a: a + sv, 's+x': lambda a: sv + a, 'x-s': lambda a: a - sv, 's-x': lambda a: sv - a, 'x*s': lambda a: a * sv, 's*x': lambda a: sv * a, 'x/s': lambda a: a / sv,
          'x+=s': lambda a: a + sv, 'x-=s': lambda a: a - sv, 'x*=s': lambda a: a * sv, 'x/=s': lambda a: a / sv}[o]
    return 'TT.scalar(%s)' % o, f, (x,), {'_model': lambda a: _m(fm(a), (_n(a) + abs(sv) * a.numel() ** 0.5) * max(1.0, abs(sv), 1.0 / abs(sv) if sv != 0 else 1.0))}


@op('aug_neutral')
def _(w):
    """Augmented assignments with the scalars for which implementations like to take shortcuts (exact zero, one) on an object of rank > 1, through a second reference:
    `y = x; y *= 0`, `y += 0`, `y /= 1` ... Whatever object `y` is afterwards - a new one today - every object in existence must be self-consistent and x must keep its value."""
    N = w.small_shape(3)
    d = len(N)
    x = w.fresh(N, M=[w.rng.choice((1, 2)) for _ in N] if w.rng.random() < 0.3 else None, R=[1] + [w.rng.randint(2, 3) for _ in range(d - 1)] + [1], view='plain') if w.rng.random() < 0.6 else w.pick()
    sym, s = w.rng.choice([('*', 0), ('*', 0.0), ('*', torch.tensor(0.0, dtype=w.dt)), ('+', 0), ('-', 0.0), ('/', 1), ('*', 1), ('*', 1.0), ('+', torch.tensor([0.0], dtype=w.dt))])

    def f(a):
        y = a
        if sym == '*':
            y *= s
        elif sym == '+':
            y += s
        elif sym == '-':
            y -= s
        else:
            y /= s
        return y
    sv = float(s.reshape(-1)[0].real) if torch.is_tensor(s) else s
    fm = {'*': lambda a: a * sv, '+': lambda a: a + sv, '-': lambda a: a - sv, '/': lambda a: a / sv}[sym]
    return 'TT.scalar(x%s=%s)' % (sym, 'zero' if sv == 0 else 'one'), f, (x,), {'_model': lambda a: _m(fm(a), _n(a) + 1.0)}


@op('neg')
def _(w):
    return 'neg', lambda a: -a, (w.pick(),), {'_model': lambda a: _m(-a, _n(a))}


@op('t')
def _(w):
    A = w.pick('ttm')
    d_ = len(A.N)
    return 't()', lambda a: a.t(), (A,), {'_model': lambda a: _m(a.permute(list(range(d_, 2 * d_)) + list(range(d_))), _n(a))}


@op('pos')
def _(w):
    return 'pos', lambda a: +a, (w.pick(),), {'_model': lambda a: _m(a, _n(a))}


@op('matmul')
def _(w):
    A = w.pick('ttm')
    which = w.rng.choice(['Ax', 'xA', 'AB', 'Adense'])
    if which == 'Ax':
        return 'TTM@TT', lambda a, b: a @ b, (A, w.like(A, N=list(A.N), ttm=False)), {'_model': lambda a, b: _m(torch.tensordot(a, b, dims=b.dim()), _n(a) * _n(b))}
    if which == 'xA':
        return 'TT@TTM', lambda a, b: a @ b, (w.like(A, N=list(A.M), ttm=False), A), {'_model': lambda a, b: _m(torch.tensordot(a, b, dims=a.dim()), _n(a) * _n(b))}
    if which == 'AB':
        K = [w.rng.choice((1, 2, 3)) for _ in A.N]
        return 'TTM@TTM', lambda a, b: a @ b, (A, w.like(A, N=K, M=list(A.N), ttm=True)), {'_model': lambda a, b: _m(torch.tensordot(a, b, dims=a.dim() // 2), _n(a) * _n(b))}
    X = gens.values([w.rng.randint(1, 3) for _ in range(w.rng.randint(0, 2))] + list(A.N), w.dt, 'gauss', w.g)
    dA_ = len(A.N)
    return 'TTM@dense', lambda a, b: a @ b, (A, X), {'_model': lambda a, b: _m(torch.tensordot(b, a, dims=(list(range(b.dim() - dA_, b.dim())), list(range(dA_, 2 * dA_)))), _n(a) * _n(b))}


@op('kron')
def _(w):
    x = w.pick()
    y = w.pick('ttm' if x.is_ttm else 'tt')
    if len(x.N) + len(y.N) > MAX_ORDER:
        raise _NA()
    f = w.rng.choice([lambda a, b: a ** b, lambda a, b: w.tt.kron(a, b)])
    ttm_, da_, db_ = x.is_ttm, len(x.N), len(y.N)

    def kr(a, b):
        t = torch.tensordot(a, b, dims=0)
        if ttm_:
            t = t.permute(list(range(da_)) + list(range(2 * da_, 2 * da_ + db_)) + list(range(da_, 2 * da_)) + list(range(2 * da_ + db_, 2 * da_ + 2 * db_)))
        return _m(t, _n(a) * _n(b))
    return 'kron', f, (x, y), {'_model': kr}


@op('kron_none')
def _(w):
    x = w.pick()
    f = w.rng.choice([lambda a: a ** None, lambda a: None ** a, lambda a: w.tt.kron(None, a), lambda a: w.tt.kron(a, None)])
    return 'kron(None)', f, (x,)


@op('round')
def _(w):
    x = w.pick()
    eps = w.rng.choice((0.0, 1e-12, 1e-3, 0.3))
    rmax = w.rng.choice((None, 1, 2, 50))
    if rmax is None:
        return 'round', lambda a: a.round(eps), (x,), {'_model': lambda a: _m(a, _n(a), eps * _n(a) * 1.0000001)}
    return 'round', lambda a: a.round(eps, rmax), (x,)


@op('getitem')
def _(w):
    x = w.pick('tt')
    idx = _rand_index(w, x)
    return 'getitem', lambda a: a[idx], (x,), {'_model': lambda a: _m(a[idx], _n(a), 0.0, False)}


@op('getitem_ttm')
def _(w):
    A = w.pick('ttm')
    rows, cols = [], []
    for m, n in zip(A.M, A.N):
        if w.rng.random() < 0.35:
            rows.append(w.rng.randrange(m))
            cols.append(w.rng.randrange(n))
        else:
            a = w.rng.randrange(m)
            rows.append(slice(a, m) if w.rng.random() < 0.6 else slice(a, a + 1))
            cols.append(slice(None) if w.rng.random() < 0.6 else slice(0, 1))
        if w.rng.random() < 0.1:
            rows.append(None)
            cols.append(None)
    idx = tuple(rows + cols)
    return 'getitem(operator)', lambda a: a[idx], (A,)


@op('getitem_bare')
def _(w):
    x = w.fresh([w.rng.choice((1, 2, 3, 4))]) if w.rng.random() < 0.7 else w.pick('tt')
    n = x.N[0]
    idx = w.rng.choice([w.rng.randrange(n), slice(0, 1), slice(None), Ellipsis, slice(None, None, 2)])
    return 'getitem(bare)', lambda a: a[idx], (x,), {'_model': lambda a: _m(a[idx], _n(a), 0.0, False)}


@op('sum')
def _(w):
    x = w.pick()
    d = len(x.N)
    which = w.rng.random()
    if which < 0.25:
        return 'sum()', lambda a: a.sum(), (x,), {'_model': lambda a: _m(a.sum(), float(a.abs().sum()), 0.0, False)}
    ttm_ = x.is_ttm
    if which < 0.5:
        k = w.rng.randrange(d)
        return 'sum(int)', lambda a: a.sum(k), (x,), {'_model': lambda a: _m(a.sum(dim=[k, d + k] if ttm_ else [k]), float(a.abs().sum()), 0.0, False)}
    ks = w.rng.sample(range(d), w.rng.randint(1, d))          # a set of modes, in any order
    if w.rng.random() < 0.5:
        ks = sorted(ks)
    kss = sorted(ks)
    return 'sum(list)', lambda a: a.sum(list(ks)), (x,), {'_model': lambda a: _m(a.sum(dim=kss + [d + k_ for k_ in kss] if ttm_ else kss), float(a.abs().sum()), 0.0, False)}


@op('dot')
def _(w):
    a = w.pick('tt')
    d = len(a.N)
    if w.rng.random() < 0.5:
        return 'dot', w.tt.dot, (a, w.like(a)), {'_model': lambda p, q: _m((p * q.conj()).sum(), _n(p) * _n(q), 0.0, False)}
    ax = sorted(w.rng.sample(range(d), w.rng.randint(1, d)))
    b = w.fresh([a.N[i] for i in ax])
    return 'dot(axis)', lambda p, q: w.tt.dot(p, q, ax), (a, b), {'_model': lambda p, q: _m(torch.tensordot(p, q.conj(), dims=(ax, list(range(len(ax))))), _n(p) * _n(q), 0.0, False)}


@op('norm')
def _(w):
    x = w.pick()
    sq = w.rng.random() < 0.5
    return 'norm', lambda a: a.norm(sq), (x,), {'_model': lambda a: _m(_n(a) ** 2 if sq else _n(a), (_n(a) ** 2 if sq else _n(a)) * 1e3, 0.0, False)}


@op('full')
def _(w):
    x = w.pick()
    return w.rng.choice(['full', 'numpy']), (lambda a: a.full()) if w.rng.random() < 0.6 else (lambda a: a.numpy()), (x,), {'_model': lambda a: _m(a, _n(a))}


@op('bilinear')
def _(w):
    A = w.pick('ttm')
    return 'bilinear_form', w.tt.bilinear_form, (w.like(A, N=list(A.M), ttm=False), A, w.like(A, N=list(A.N), ttm=False)), {
        '_model': lambda p, q, r_: _m(torch.tensordot(p.conj(), torch.tensordot(q, r_, dims=r_.dim()), dims=p.dim()), _n(p) * _n(q) * _n(r_), 0.0, False)}


@op('apply_mask')
def _(w):
    x = w.pick('tt')
    rows = w.rng.choice((1, 3))
    I = torch.stack([torch.randint(0, n, (rows,), generator=w.g) for n in x.N], dim=1)
    return 'apply_mask', lambda a: a.apply_mask(I), (x,), {'_model': lambda a: _m(a[tuple(I[:, k_] for k_ in range(I.shape[1]))], _n(a), 0.0, False)}


@op('reshape')
def _(w):
    x = w.pick()
    if x.is_ttm:
        m, n = dn.prod(x.M), dn.prod(x.N)
        shape = w.rng.choice([[(m, n)], [(m, n), (1, 1)], [(1, 1), (m, n)], list(zip(reversed(x.M), reversed(x.N))) if list(reversed(x.M)) == list(x.M) and list(reversed(x.N)) == list(x.N) else [(m, n)]])
    else:
        n = dn.prod(x.N)
        opts = [[n], [1, n], [n, 1], list(x.N) + [1], [1] + list(x.N)]
        for f in (2, 3):
            if n % f == 0:
                opts += [[f, n // f], [n // f, f]]
        shape = w.rng.choice(opts)
    eps = w.rng.choice((1e-14, 1e-3))
    tgt = ([s_[0] for s_ in shape] + [s_[1] for s_ in shape]) if x.is_ttm else list(shape)
    return 'reshape', lambda a: w.tt.reshape(a, shape, eps=eps), (x,), {'_model': lambda a: _m(a.reshape(tgt), _n(a), 10 * eps * _n(a))}


@op('permute')
def _(w):
    x = w.pick()
    p = list(range(len(x.N)))
    w.rng.shuffle(p)
    eps = w.rng.choice((1e-12, 1e-2))
    dd = len(p)
    pp = (list(p) + [dd + k_ for k_ in p]) if x.is_ttm else list(p)
    return 'permute', lambda a: w.tt.permute(a, p, eps=eps), (x,), {'_model': lambda a: _m(a.permute(pp), _n(a), 10 * eps * _n(a))}


@op('qtt')
def _(w):
    if w.rng.random() < 0.5:
        N = [w.rng.choice((2, 4, 8)) for _ in range(w.rng.randint(1, 3))]
        x = w.fresh(N, M=list(N) if w.rng.random() < 0.3 else None)
        return 'to_qtt', lambda a: a.to_qtt(eps=w.rng.choice((1e-12, 1e-2))), (x,)
    k = w.rng.randint(2, 5)
    x = w.fresh([2] * k)
    split = w.rng.randint(1, k - 1)
    return 'qtt_to_tens', lambda a: a.qtt_to_tens([2 ** split, 2 ** (k - split)]), (x,)


@op('cat')
def _(w):
    x = w.pick('tt')
    d = len(x.N)
    dim = w.rng.randrange(d)
    N2 = list(x.N)
    N2[dim] = w.rng.choice((1, 2, 3))
    ops = (x, w.fresh(N2)) + ((w.fresh(list(x.N)),) if w.rng.random() < 0.3 else ())
    return 'cat', lambda *ts: w.tt.cat(tuple(ts), dim), ops, {'_model': lambda *ds: _m(torch.cat(list(ds), dim=dim), sum(_n(t_) for t_ in ds))}


@op('pad')
def _(w):
    x = w.pick()
    d = len(x.N)
    k = w.rng.randint(1, d)
    padding = tuple((w.rng.randint(0, 2), w.rng.randint(0, 2)) for _ in range(k))
    value = w.rng.choice((0.0, 1.5))
    kw = {}
    if not x.is_ttm:
        flat = []
        for (b_, a_) in reversed([(0, 0)] * (d - k) + list(padding)):
            flat += [b_, a_]

        def padm(a):
            import torch.nn.functional as F
            ref = torch.complex(F.pad(a.real, flat, value=value), F.pad(a.imag, flat, value=0.0)) if a.is_complex() else F.pad(a, flat, value=value)
            return _m(ref, _n(a) + abs(value) * ref.numel() ** 0.5)
        kw['_model'] = padm
    return 'pad', lambda a: w.tt.pad(a, padding, value), (x,), kw


@op('diag')
def _(w):
    x = w.pick()
    d_ = len(x.N)

    def dm(a):
        if a.dim() == d_:       # tensor -> diagonal operator
            out = torch.zeros(list(a.shape) * 2, dtype=a.dtype)
            idx = torch.nonzero(torch.ones(list(a.shape)), as_tuple=True)
            out[idx + idx] = a[idx]
            return _m(out, _n(a))
        out = a
        for k_ in range(d_):    # operator -> its diagonal
            out = torch.diagonal(out, dim1=0, dim2=d_ - k_)
        return _m(out, _n(a))
    return 'diag', w.tt.diag, (x,), {'_model': dm}


@op('mprod')
def _(w):
    x = w.pick('tt')
    d = len(x.N)
    if w.rng.random() < 0.5:
        k = w.rng.randrange(d)
        A = gens.values([w.rng.choice((1, 2, 3)), x.N[k]], w.dt, 'gauss', w.g)
        return 'mprod', lambda a: a.mprod(A, k), (x,), {'_model': lambda a: _m(torch.movedim(torch.tensordot(A.to(a.dtype), a, dims=([1], [k])), 0, k), _n(a) * _n(A))}
    ks = w.rng.sample(range(d), w.rng.randint(1, d))
    As = [gens.values([w.rng.choice((1, 2, 3)), x.N[k]], w.dt, 'gauss', w.g) for k in ks]
    return 'mprod(list)', lambda a: a.mprod(As, ks), (x,)


@op('convert')
def _(w):
    x = w.pick()
    which = w.rng.choice(['to_ttm', 't', 'conj', 'clone', 'detach', 'cpu', 'to'])
    if which == 'to_ttm':
        x = w.pick('tt')
        return 'to_ttm', lambda a: a.to_ttm(), (x,)
    if which == 't':
        x = w.pick('ttm')
        d_ = len(x.N)
        return 't', lambda a: a.t(), (x,), {'_model': lambda a: _m(a.permute(list(range(d_, 2 * d_)) + list(range(d_))), _n(a))}
    f = {'conj': lambda a: a.conj(), 'clone': lambda a: a.clone(), 'detach': lambda a: a.detach(), 'cpu': lambda a: a.cpu(), 'to': lambda a: a.to(dtype=w.dt)}[which]
    return which, f, (x,), {'_model': (lambda a: _m(a.conj(), _n(a))) if which == 'conj' else (lambda a: _m(a, _n(a)))}


def _nk(w):
    return {} if w.nswp is None else {'nswp': w.nswp}


def _itm(w, product, real_only=False):
    """dense model of an approximate product: only with the DEFAULT sweep budget (w.nswp None), where C11 promises 10*eps"""
    if w.nswp is not None or (real_only and w.dt in (torch.complex64, torch.complex128)):
        return {}

    def m(*ds):
        ref = product(*ds)
        return _m(ref, _n(ds[0]) * _n(ds[1]), 10 * 1e-6 * _n(ref))
    return {'_model': m}


# ---- iterative routines (structure only in the C05/C06 walks; accuracy is C11-C14) ---------------------------------------------------------
@op('fast_matvec')
def _(w):
    A = w.pick('ttm')
    x = w.like(A, N=list(A.N), ttm=False)
    if w.rng.random() < 0.5:
        y0 = w.guess(A, N=list(A.M), ttm=False)
        return 'fast_matvec(initial)', lambda a, b, c: a.fast_matvec(b, eps=1e-6, initial=c, use_cpp=False, **_nk(w)), (A, x, y0), _itm(w, lambda a, b, c: torch.tensordot(a, b, dims=b.dim()))
    return 'fast_matvec', lambda a, b: a.fast_matvec(b, eps=1e-6, use_cpp=False, **_nk(w)), (A, x), _itm(w, lambda a, b: torch.tensordot(a, b, dims=b.dim()))


@op('dmrg_hadamard')
def _(w):
    x = w.pick('tt')
    y = w.like(x)
    if w.rng.random() < 0.5:
        z0 = w.guess(x)
        return 'dmrg_hadamard(z0)', lambda a, b, c: w.tt.dmrg_hadamard(a, b, z0=c, eps=1e-6, **_nk(w)), (x, y, z0), _itm(w, lambda a, b, c: a * b)
    return 'dmrg_hadamard', lambda a, b: w.tt.dmrg_hadamard(a, b, eps=1e-6, **_nk(w)), (x, y), _itm(w, lambda a, b: a * b)


@op('amen_mv')
def _(w):
    A = w.pick('ttm')
    x = w.like(A, N=list(A.N), ttm=False)
    if w.rng.random() < 0.5:
        x0 = w.guess(A, N=list(A.M), ttm=False)
        return 'amen_mv(x0)', lambda a, b, c: w.tt.amen_mv(a, b, x0=c, eps=1e-6, **_nk(w)), (A, x, x0), _itm(w, lambda a, b, c: torch.tensordot(a, b, dims=b.dim()), real_only=True)
    return 'amen_mv', lambda a, b: w.tt.amen_mv(a, b, eps=1e-6, **_nk(w)), (A, x), _itm(w, lambda a, b: torch.tensordot(a, b, dims=b.dim()), real_only=True)


@op('amen_mm')
def _(w):
    A = w.pick('ttm')
    K = [w.rng.choice((1, 2)) for _ in A.N]
    B = w.like(A, N=K, M=list(A.N), ttm=True)
    if w.rng.random() < 0.5:
        X0 = w.guess(A, N=K, M=list(A.M), ttm=True)
        return 'amen_mm(X0)', lambda a, b, c: w.tt.amen_mm(a, b, X0=c, eps=1e-6, **_nk(w)), (A, B, X0), _itm(w, lambda a, b, c: torch.tensordot(a, b, dims=a.dim() // 2), real_only=True)
    return 'amen_mm', lambda a, b: w.tt.amen_mm(a, b, eps=1e-6, **_nk(w)), (A, B), _itm(w, lambda a, b: torch.tensordot(a, b, dims=a.dim() // 2), real_only=True)


def _spd_operator(w, N):
    """I + 0.1 * B^T B  as a TT matrix built through the library (so that every piece is a monitored object)."""
    B = w.fresh(list(N), M=list(N), R=[1] + [w.rng.randint(1, 2) for _ in N[1:]] + [1])
    I = w.tt.eye(list(N), dtype=w.dt)
    A = w.ctx.lib('TTM@TTM', lambda b: b.t() @ b, B)
    if isinstance(A, Raised):
        raise _NA()
    nb = float(sum(float(torch.linalg.norm(c)) for c in A.cores)) or 1.0
    A = w.ctx.lib('TTM+TTM', lambda i, a: i + (0.2 / nb) * a, I, A)
    if isinstance(A, Raised):
        raise _NA()
    return A


@op('amen_solve')
def _(w):
    N = [w.rng.choice((2, 3)) for _ in range(w.rng.randint(1, 3))]
    A = _spd_operator(w, N)
    b = w.fresh(N)
    kw = dict(nswp=w.nswp, eps=1e-6, use_cpp=False, preconditioner=w.rng.choice((None, 'c', 'r')), max_full=w.rng.choice((500, 0)), local_solver=w.rng.choice((1, 2)))
    if w.rng.random() < 0.5:
        x0 = w.fresh(N)
        return 'amen_solve(x0)', lambda a, c, x: w.tt.solvers.amen_solve(a, c, x0=x, **kw), (A, b, x0)
    return 'amen_solve', lambda a, c: w.tt.solvers.amen_solve(a, c, **kw), (A, b)


def _positive(w, N):
    """1 + z*z entrywise, as TT"""
    z = w.fresh(N, R=[1] + [1] * (len(N) - 1) + [1], vals='pos')
    return z


@op('divide')
def _(w):
    N = [w.rng.choice((2, 3)) for _ in range(w.rng.randint(2, 3))]
    y = _positive(w, N)
    x = w.fresh(N)
    which = w.rng.choice(['x/y', 's/y', 'elementwise_divide', 'elementwise_divide(start)'])
    if which == 'x/y':
        return 'TT/TT', lambda a, b: a / b, (x, y)
    if which == 's/y':
        return 'scalar/TT', lambda b: 2.0 / b, (y,)
    if which == 'elementwise_divide':
        return 'elementwise_divide', lambda a, b: w.tt.elementwise_divide(a, b, eps=1e-6, nswp=w.nswp, preconditioner=w.rng.choice((None, 'c'))), (x, y)
    s0 = w.fresh(N)
    return 'elementwise_divide(start)', lambda a, b, c: w.tt.elementwise_divide(a, b, eps=1e-6, starting_tensor=c, nswp=w.nswp), (x, y, s0)


@op('interpolate')
def _(w):
    if w.dt != torch.float64:
        raise _NA()
    N = [w.rng.choice((2, 3, 4)) for _ in range(w.rng.randint(2, 3))]
    which = w.rng.choice(['uni', 'uni(start)', 'multi', 'cross', 'cross(start)'])
    tt = w.tt
    if which.startswith('uni'):
        x = _positive(w, N)
        if which == 'uni':
            return 'function_interpolate', lambda a: tt.interpolate.function_interpolate(lambda v: v * v + 1.0, a, eps=1e-4, nswp=w.nswp), (x,)
        s = w.fresh(N)
        return 'function_interpolate(start)', lambda a, c: tt.interpolate.function_interpolate(lambda v: v * v + 1.0, a, eps=1e-4, start_tens=c, nswp=w.nswp), (x, s)
    if which == 'multi':
        xs = [_positive(w, N) for _ in range(2)]
        return 'function_interpolate(list)', lambda a, b: tt.interpolate.function_interpolate(lambda V: V[:, 0] + 2 * V[:, 1], [a, b], eps=1e-4, nswp=w.nswp), tuple(xs)
    f = lambda I: 1.0 / (2.0 + I.sum(1).to(torch.float64))
    if which == 'cross':
        return 'dmrg_cross', lambda: tt.interpolate.dmrg_cross(f, N, eps=1e-4, nswp=w.nswp), ()
    s = w.fresh(N)
    return 'dmrg_cross(start)', lambda c: tt.interpolate.dmrg_cross(f, N, eps=1e-4, nswp=w.nswp, x_start=c), (s,)


@op('manifold')
def _(w):
    x = w.pick()
    if w.dt != torch.float64:
        raise _NA()
    tt = w.tt
    if w.rng.random() < 0.6:
        return 'riemannian_projection', tt.manifold.riemannian_projection, (x, w.like(x))
    tgt = w.like(x)
    return 'riemannian_gradient', lambda a, b: tt.manifold.riemannian_gradient(a, lambda t: ((t - b).norm()) ** 2), (x, tgt)


# ---- documented in-place operations -----------------------------------------------------------------------------------
@op('set_core')
def _(w):
    x = w.pick()
    k = w.rng.randrange(len(x.N))
    sh = list(x.cores[k].shape)
    if w.rng.random() < 0.5 and not w._same_shape:
        sh[1] = w.rng.choice((1, 2, 3))       # mode-size-changing core
        if x.is_ttm and w.rng.random() < 0.5:
            sh[2] = w.rng.choice((1, 2, 3))
    core = gens.values(sh, x.cores[k].dtype, 'gauss', w.g)
    w.derived += 1
    return 'set_core', lambda a: a.set_core(k, core), (x,), {'_inplace': (x,)}


@op('ctor_rejected')
def _(w):
    """Core lists the constructor must not turn into an object (3-d and 4-d cores mixed with chaining ranks, neighbouring ranks that disagree, boundary ranks other than 1,
    rank1TT of a vector and a matrix): whatever comes back - an exception today - every object in existence is self-consistent afterwards."""
    N = w.small_shape(3)
    d = len(N)
    R = [1] + [w.rng.randint(1, 3) for _ in range(d - 1)] + [1]
    how = w.rng.choice(['mixed-3d-4d', 'mixed-3d-4d', 'rank-mismatch', 'boundary-rank', 'rank1TT-mixed'])
    if how == 'rank1TT-mixed':
        vs = [gens.values([n], w.dt, 'gauss', w.g) for n in N]
        j = w.rng.randrange(d)
        vs[j] = gens.values([N[j], w.rng.choice((1, 2))], w.dt, 'gauss', w.g)
        if d == 1:
            raise _NA()
        return 'rank1TT(rejected:vector+matrix)', lambda: w.tt.rank1TT(vs), ()
    cores = gens.make_cores(N, R, w.dt, 'gauss', w.g)
    j = w.rng.randrange(d)
    if how == 'mixed-3d-4d':
        if d == 1:
            raise _NA()
        cores[j] = gens.values([R[j], N[j], w.rng.choice((1, 2)), R[j + 1]], w.dt, 'gauss', w.g)
    elif how == 'rank-mismatch':
        if d == 1:
            raise _NA()
        j = w.rng.randrange(d - 1)
        cores[j] = gens.values([R[j], N[j], R[j + 1] + 1], w.dt, 'gauss', w.g)
    else:
        cores[0] = gens.values([2, N[0], R[1]], w.dt, 'gauss', w.g)
    return 'TT(cores,rejected:%s)' % how, lambda: w.tt.TT(cores), ()


@op('set_core_rejected')
def _(w):
    """set_core with a core the object cannot take (wrong number of dimensions with matching ranks, a wrong rank, a bad position): whatever the call does -
    it raises today - every object must still be self-consistent afterwards (C05 quantifies over all sequences of public calls, rejected ones included)."""
    x = w.pick()
    d = len(x.N)
    k = w.rng.randrange(d)
    sh = list(x.cores[k].shape)
    how = w.rng.choice(['ndim', 'ndim', 'left-rank', 'right-rank', 'position', '2-d'])
    if how == 'ndim':
        sh = [sh[0], sh[1], w.rng.choice((1, 2)), sh[-1]] if not x.is_ttm else [sh[0], sh[1], sh[-1]]
    elif how == 'left-rank':
        sh[0] += 1
    elif how == 'right-rank':
        sh[-1] += 1
    elif how == '2-d':
        sh = [sh[0], sh[-1]]
    kk = k if how != 'position' else w.rng.choice((d, -1 - d, d + 3))
    core = gens.values(sh, x.cores[k].dtype, 'gauss', w.g)
    w.derived += 1
    return 'set_core(rejected:%s)' % how, lambda a: a.set_core(kk, core), (x,), {'_inplace': (x,)}


@op('reduce_dims')
def _(w):
    x = w.pick()
    ex = [i for i in range(len(x.N)) if w.rng.random() < 0.3]
    w.derived += 1
    if all(n == 1 for n in x.N) and (not x.is_ttm or all(m == 1 for m in x.M)):
        raise _NA()     # documented precondition: at least one mode larger than 1
    return 'reduce_dims', (lambda a: a.reduce_dims(ex)) if ex or w.rng.random() < 0.5 else (lambda a: a.reduce_dims()), (x,), {'_inplace': (x,)}


@op('watch')
def _(w):
    x = w.pick()
    tt = w.tt
    if not (x.cores[0].is_floating_point() or x.cores[0].is_complex()) or any(not c.is_leaf for c in x.cores):
        raise _NA()
    if w.rng.random() < 0.5:
        return 'grad.watch', lambda a: tt.grad.watch(a), (x,), {'_inplace': (x,)}
    return 'grad.unwatch', lambda a: tt.grad.unwatch(a), (x,), {'_inplace': (x,)}


@op('scribble')
def _(w):
    """write on the lists returned by N / M / R: they must be copies"""
    x = w.pick()

    def f(a):
        for nm in ('N', 'R') + (('M',) if a.is_ttm else ()):
            lst = getattr(a, nm)
            lst.append(99)
            if lst:
                lst[0] = 77
        sh = a.shape
        return None
    return 'scribble(N/M/R)', f, (x,)


OP_NAMES = sorted(OPS)
CHEAP_OPS = [n for n in OP_NAMES if n not in ('amen_solve', 'divide', 'interpolate', 'amen_mm', 'amen_mv', 'manifold')]


# ---- history-only operation (registered after OP_NAMES: not part of the C05/C06 alphabets) ------------------------------------------
def _core_write(w):
    """The user updates a core tensor in place (what an optimiser step on tracked cores does): x.cores[k] <- x.cores[k] * c + s under no_grad.
    The object keeps its identity and its core tensors keep theirs; only the numbers change."""
    x = w.pick()
    k = w.rng.randrange(len(x.cores))
    c, s = w.rng.choice((0.5, -2.0, 3.0)), w.rng.choice((0.0, 0.25))
    if not (x.cores[k].is_floating_point() or x.cores[k].is_complex()):
        raise _NA()

    def f(a):
        with torch.no_grad():
            a.cores[k].mul_(c)
            if s:
                a.cores[k].add_(s)
        return None
    w.derived += 1
    return 'core_write(in place)', f, (x,), {'_inplace': (x,), 'resnap_all': True}


OPS['core_write'] = _core_write
