"""Per-case context handed to a property's run_case(): boundary calls, verdict recording, counters."""
import hashlib
import traceback

LIB_ERRORS = ('ShapeMismatch', 'RankMismatch', 'IncompatibleTypes', 'InvalidArguments', 'NotImplementedError')


class Raised:
    """Outcome of a library call that raised."""

    def __init__(self, exc):
        # keep strings only: the exception's traceback would keep the frames (and every TT object in them) alive
        self.type = type(exc).__name__
        tb = traceback.extract_tb(exc.__traceback__)
        inner = [f for f in tb if '/torchtt/' in f.filename]
        f = inner[-1] if inner else (tb[-1] if tb else None)
        self.where = '%s:%s:%d' % (f.filename.rsplit('/', 1)[-1], f.name, f.lineno) if f else '?'
        self.func = f.name if f else '?'
        self.msg = str(exc)[:200]
        exc.__traceback__ = None

    def __repr__(self):
        return 'Raised(%s at %s: %s)' % (self.type, self.where, self.msg)


class CaseTimeout(BaseException):
    pass


class Ctx:
    def __init__(self, mon, prop, case, verbose=False):
        self.mon = mon
        self.prop = prop
        self.case = case
        self.viols = []
        self.sigs = set()
        self.metrics = {}
        self.counts = {}
        self.verbose = verbose
        self.notes = []

    # boundary ---------------------------------------------------------------------------------------
    def call(self, op, fn, *a, **k):
        """Library call through the monitors; exceptions propagate."""
        return self.mon.call(op, fn, *a, **k)

    def lib(self, op, fn, *a, **k):
        """Library call through the monitors; an exception is returned as a Raised outcome."""
        try:
            return self.mon.call(op, fn, *a, **k)
        except CaseTimeout:
            raise
        except Exception as e:
            return Raised(e)

    # verdicts ---------------------------------------------------------------------------------------
    def viol(self, key, detail):
        """Record a violation.  `key` is the mechanism signature (operation / structural class / failed
        clause) - never a seed, hash or random value."""
        self.viols.append({'key': '%s/%s' % (self.prop, key), 'detail': str(detail)[:1500]})
        if self.verbose:
            print('  VIOL %s/%s: %s' % (self.prop, key, detail))

    def nontrivial(self, sig):
        self.sigs.add(hashlib.blake2b(str(sig).encode(), digest_size=8).hexdigest())

    def metric(self, name, value):
        value = float(value)
        if value != value:
            value = float('inf')
        if name not in self.metrics or value > self.metrics[name]:
            self.metrics[name] = value

    def count(self, name, n=1):
        self.counts[name] = self.counts.get(name, 0) + n

    def note(self, s):
        if self.verbose:
            print('  ' + str(s))
