"""Reference model: the harness's own dense tensor algebra.

Everything here works on lists of cores (torch tensors) and plain dense tensors and never calls into
torchtt.  Contraction is a reshape+matmul chain in float64/complex128 (the library's full() uses einsum with
a different association), so it is an independent evaluation of the same multilinear form.  For cores with
small integer entries every intermediate is an exactly representable integer and the result is exact.
"""
import math
import torch


def up(dtype):
    return torch.complex128 if dtype in (torch.complex64, torch.complex128) else torch.float64


def ueps(dtype):
    return {torch.float32: 1.2e-7, torch.complex64: 1.2e-7}.get(dtype, 2.3e-16)


def cores_kind(cores):
    dims = {c.dim() for c in cores}
    if dims == {3}:
        return 'tt'
    if dims == {4}:
        return 'ttm'
    raise ValueError('mixed or invalid core dims %s' % sorted(dims))


def dense_of_cores(cores):
    """Dense value of a core list: tensor -> shape N, operator -> shape M+N (rows first)."""
    kind = cores_kind(cores)
    cs = [to_up(c) for c in cores]
    if len({c.dtype for c in cs}) > 1:      # cores of mixed real / complex dtype (e.g. kron(real, complex), rank1TT of mixed vectors): contract in the common dtype
        cs = [c.to(torch.complex128) for c in cs]
    if cs[0].shape[0] != 1 or cs[-1].shape[-1] != 1:
        raise ValueError('boundary ranks are not 1')
    t = cs[0].reshape(-1, cs[0].shape[-1])
    for c in cs[1:]:
        if t.shape[-1] != c.shape[0]:
            raise ValueError('rank chain broken')
        t = (t @ c.reshape(c.shape[0], -1)).reshape(-1, c.shape[-1])
    if kind == 'tt':
        return t.reshape([c.shape[1] for c in cs])
    d = len(cs)
    inter = []
    for c in cs:
        inter += [c.shape[1], c.shape[2]]
    t = t.reshape(inter)
    return t.permute([2 * i for i in range(d)] + [2 * i + 1 for i in range(d)]).contiguous()


def D(t):
    """Dense value of a torchtt.TT object, computed from its cores by the harness."""
    return dense_of_cores(t.cores)


def s_rep(*objs):
    """prod_k ||G_k||_F over all cores of all given TT objects / core lists (a-priori bound on partial sums)."""
    s = 1.0
    for o in objs:
        cores = o.cores if hasattr(o, 'cores') else o
        for c in cores:
            s *= float(torch.linalg.norm(c.detach().to(up(c.dtype)).reshape(-1)))
    return s


def fro(x):
    return float(torch.linalg.norm(x.reshape(-1)))


def to_up(x):
    # contiguous: the contraction must depend on the values only, not on the memory layout (BLAS picks different
    # summation orders for strided operands, which differ in the last bit)
    x = x.detach().to(up(x.dtype))
    x = x.resolve_conj() if x.is_complex() else x
    return x.contiguous()


def bit_equal(a, b):
    """Exact equality of two dense tensors (after upcast), NaN-aware, shape-strict."""
    if tuple(a.shape) != tuple(b.shape):
        return False
    a = to_up(a)
    b = to_up(b)
    if a.dtype != b.dtype:
        a = a.to(torch.complex128)
        b = b.to(torch.complex128)
    if a.is_complex():
        a = torch.view_as_real(a)
        b = torch.view_as_real(b)
    if torch.equal(a, b):
        return True
    na, nb = torch.isnan(a), torch.isnan(b)
    return bool(torch.equal(na, nb) and torch.equal(a[~na], b[~nb]))


def max_abs_diff(a, b):
    a = to_up(a)
    b = to_up(b)
    if a.numel() == 0:
        return 0.0
    return float((a - b).abs().max())


def unfolding_ranks(full, nmodes_groups):
    """Exact (numerical) ranks of the sequential unfoldings of a dense tensor whose modes have sizes
    nmodes_groups (list of ints, product = numel)."""
    sizes = list(nmodes_groups)
    tot = 1
    for s in sizes:
        tot *= s
    ranks = [1]
    left = 1
    x = to_up(full).reshape(-1)
    for k in range(len(sizes) - 1):
        left *= sizes[k]
        m = x.reshape(left, tot // left)
        if m.numel() == 0:
            ranks.append(0)
        else:
            ranks.append(int(torch.linalg.matrix_rank(m)))
    ranks.append(1)
    return ranks


def interleave_dense(A, d):
    """M+N dense operator -> interleaved (m1,n1,m2,n2..) merged to size-(m_k n_k) modes."""
    perm = []
    for i in range(d):
        perm += [i, d + i]
    sh = A.shape
    B = A.permute(perm)
    return B.reshape([sh[i] * sh[d + i] for i in range(d)])


def prod(xs):
    p = 1
    for x in xs:
        p *= int(x)
    return p


def dtype_of(name):
    return {'f64': torch.float64, 'f32': torch.float32, 'c128': torch.complex128, 'c64': torch.complex64}[name]


def dtype_name(dt):
    return {torch.float64: 'f64', torch.float32: 'f32', torch.complex128: 'c128', torch.complex64: 'c64'}.get(dt, str(dt))
