"""C20 - the TT linear layer computes the dense affine map it represents."""
import random
import torch

from .. import dense as dn
from .. import gens
from ..oracle import compare
from ..ctx import Raised

PROP = 'C20'
RULE = ('cases = LinearLayerTT(size_in,size_out,rank,dtype,initializer) with 1..4 modes, rectangular sizes 1..5, rank profiles one/uniform/distinct/random, '
        'f32/f64, initializers He/Glo, bias overwritten with random values, inputs with 0..3 leading batch dims (size-1 batch dims included; a few batches of 4100 .. 65537 samples). Oracle: forward(x) '
        'vs tensordot of the harness-contracted dense operator plus bias (1e3*u*S_rep); named_parameters() holds every core and the bias, all requires_grad; '
        'gradients of a random scalar loss w.r.t. every parameter vs autograd of the dense map; in a third of the cases an untracked (no_grad) forward precedes the tracked one; in half of the cases a history follows: eval(), forward, parameters overwritten in place, forward again (must reflect the new parameters), gradients in eval mode; an invalid initializer must raise. '
        'distinct = (sizes, rank, batch shape, dtype, initializer); non-trivial = non-zero reference output.')
ASSUMPTIONS = ['cores are re-set to int-valued tensors in half of the cases so that forward can be compared bit-exactly in those']
REQUIRED_REACH = ['nn:LinearLayerTT.__init__', 'nn:LinearLayerTT.forward', '_extras:randn']
REQUIRED_COUNTS = {'history:core-parameters-replaced': 5, 'batch>=4096-samples': 4, 'input>65536-entries-longest-batch-axis-not-first': 3, 'history:eval-update-forward': 5, 'history:no_grad-forward-first': 5, 'batchdims:0': 1, 'batchdims:1': 1, 'batchdims:2': 1, 'batchdims:3': 1, 'init:He': 1, 'init:Glo': 1, 'grad_checks': 10, 'invalid-initializer': 1}
LINE_FUNCS = ['LinearLayerTT.forward', 'LinearLayerTT.__init__']


def cases(tier, seed):
    rng = random.Random('C20|%d' % seed)
    cs = []
    n = 2500 if tier == 'quick' else 40000
    for i in range(n):
        d = rng.randint(1, 4)
        pool = (1, 2, 3, 4, 5) if d <= 3 else (1, 2, 3)
        cs.append({'gen': 'layer', 'size_in': [rng.choice(pool) for _ in range(d)], 'size_out': [rng.choice(pool) for _ in range(d)],
                   'rank': gens.rank_profile(rng, d, rng.choice(['one', 'uniform', 'distinct', 'rand']), 3), 'dtype': ['f32', 'f64'][i % 2],
                   'init': ['He', 'Glo'][(i // 2) % 2], 'batch': [rng.choice((1, 2, 3)) for _ in range(i % 4)], 'intvals': i % 3 != 0})
    # large batches (thousands of samples): size-dependent evaluation strategies must not change values or derivatives
    for i in range(8 if tier == 'quick' else 60):
        d = rng.randint(1, 3)
        cs.append({'gen': 'layer', 'size_in': [rng.choice((1, 2, 3)) for _ in range(d)], 'size_out': [rng.choice((1, 2, 3)) for _ in range(d)],
                   'rank': gens.rank_profile(rng, d, 'rand', 3), 'dtype': ['f32', 'f64'][i % 2], 'init': ['He', 'Glo'][(i // 2) % 2],
                   'batch': [[4100], [70, 60], [17, 16, 16], [9001], [2, 3000], [1, 5000, 1], [65537], [300, 33]][i % 8], 'intvals': i % 3 != 0})
    # large INPUTS (more than 65536 entries) whose longest batch axis is not the first one
    for i in range(6 if tier == 'quick' else 36):
        sin = [[4, 2, 2], [3, 3, 2], [2, 4, 3], [5, 4], [16], [2, 2, 2, 3]][i % 6]
        cs.append({'gen': 'layer', 'size_in': sin, 'size_out': [rng.choice((1, 2, 3)) for _ in sin], 'rank': gens.rank_profile(rng, len(sin), 'rand', 3), 'dtype': ['f32', 'f64'][i % 2],
                   'init': ['He', 'Glo'][(i // 2) % 2], 'batch': [[3, 3000], [2, 5, 900], [4, 2, 2100], [1, 5000, 1], [2, 4097], [3, 2, 1500]][(i + i // 6) % 6], 'intvals': i % 3 != 0})
    for i in range(4):
        cs.append({'gen': 'badinit', 'init': ['he', 'Xavier', '', None][i]})
    return cs


def run_case(case, ctx):
    g = gens.tgen(case['seed'])
    globals()['run_' + case['gen']](case, ctx, g)


def run_badinit(case, ctx, g):
    import torchtt
    ctx.count('invalid-initializer')
    out = ctx.lib('LinearLayerTT(bad initializer)', lambda: torchtt.nn.LinearLayerTT([2, 3], [3, 2], [1, 2, 1], initializer=case['init']))
    if not isinstance(out, Raised):
        ctx.viol('ctor/invalid-initializer/clause=returned', 'initializer %r accepted' % (case['init'],))
    ctx.nontrivial(('badinit', str(case['init'])))


def run_layer(case, ctx, g):
    import torchtt
    dt = dn.dtype_of(case['dtype'])
    sin, sout, rank, batch = case['size_in'], case['size_out'], case['rank'], case['batch']
    d = len(sin)
    what = 'LinearLayerTT in=%s out=%s rank=%s %s init=%s batch=%s' % (sin, sout, rank, case['dtype'], case['init'], batch)
    ctx.count('batchdims:%d' % len(batch))
    if dn.prod(batch) >= 4096:
        ctx.count('batch>=4096-samples')
    if dn.prod(batch) * dn.prod(sin) > 65536 and len(batch) >= 2 and max(batch) != batch[0]:
        ctx.count('input>65536-entries-longest-batch-axis-not-first')
    ctx.count('init:' + case['init'])
    key = 'layer/batch%d' % len(batch)
    layer = ctx.lib('LinearLayerTT', lambda: torchtt.nn.LinearLayerTT(sin, sout, rank, dtype=dt, initializer=case['init']))
    if isinstance(layer, Raised):
        ctx.viol('ctor/clause=raises:%s' % layer.type, '%s raised %r' % (what, layer))
        return
    params = dict(layer.named_parameters())
    names = sorted(params)
    cores = list(layer.cores)
    # registration: every core and the bias are trainable parameters
    if len(cores) != d or 'bias' not in params or sum(1 for n in names if n.startswith('cores.')) != d:
        ctx.viol('params/clause=registration', '%s: named_parameters=%s' % (what, names))
        return
    if not all(p.requires_grad for p in params.values()):
        ctx.viol('params/clause=requires_grad', '%s: %s' % (what, {n: p.requires_grad for n, p in params.items()}))
    for k, c in enumerate(cores):
        if list(c.shape) != [rank[k], sout[k], sin[k], rank[k + 1]] or c.dtype != dt:
            ctx.viol('params/clause=core-shape-or-dtype', '%s: core %d has shape %s dtype %s' % (what, k, list(c.shape), c.dtype))
            return
    if list(layer.bias.shape) != sout or layer.bias.dtype != dt:
        ctx.viol('params/clause=bias-shape-or-dtype', '%s: bias %s %s' % (what, list(layer.bias.shape), layer.bias.dtype))
        return
    with torch.no_grad():
        layer.bias.copy_(gens.values(sout, dt, 'int' if case['intvals'] else 'gauss', g))
        if case['intvals']:
            for c in cores:
                c.copy_(gens.values(list(c.shape), dt, 'int', g, -2, 2))
    x = gens.values(batch + sin, dt, 'int' if case['intvals'] else 'gauss', g, -2, 2)
    # dense reference from leaf copies of the parameters
    leaf = [c.detach().clone().to(torch.float64).requires_grad_(True) for c in cores]
    bleaf = layer.bias.detach().clone().to(torch.float64).requires_grad_(True)
    W = leaf[0].reshape(-1, leaf[0].shape[-1])
    for c in leaf[1:]:
        W = (W @ c.reshape(c.shape[0], -1)).reshape(-1, c.shape[-1])
    inter = []
    for c in leaf:
        inter += [c.shape[1], c.shape[2]]
    W = W.reshape(inter).permute([2 * i for i in range(d)] + [2 * i + 1 for i in range(d)])     # out modes, in modes
    nb = len(batch)
    xr = x.to(torch.float64)
    ref = torch.tensordot(xr, W, dims=(list(range(nb, nb + d)), list(range(d, 2 * d)))) + bleaf
    if case['seed'] % 3 == 1:
        # an untracked evaluation first (a validation pass), parameters unchanged, then the tracked one below: its output and derivatives must not come from anything the first left behind
        ctx.count('history:no_grad-forward-first')

        def untracked(inp):
            with torch.no_grad():
                return layer(inp)
        y0 = ctx.lib('LinearLayerTT.forward[no_grad]', untracked, x)
        if isinstance(y0, Raised):
            ctx.viol(key + '/no_grad/clause=raises:%s' % y0.type, '%s no_grad forward raised %r' % (what, y0))
        else:
            compare(ctx, key + '/no_grad', y0, ref.detach(), case['intvals'] and gens.exact_ok(dt, gens.abs_bound(cores) * float(x.abs().sum()) + float(layer.bias.detach().abs().max())),
                    dn.ueps(dt), dn.s_rep(cores) * dn.fro(x) + dn.fro(layer.bias.detach()), what + ' [no_grad]')
    y = ctx.lib('LinearLayerTT.forward', lambda inp: layer(inp), x)
    if isinstance(y, Raised):
        ctx.viol(key + '/clause=raises:%s' % y.type, '%s forward raised %r' % (what, y))
        return
    srep = dn.s_rep(cores) * dn.fro(x) + dn.fro(layer.bias.detach())
    bound = gens.abs_bound(cores) * float(x.abs().sum()) + float(layer.bias.detach().abs().max())
    exact = case['intvals'] and gens.exact_ok(dt, bound)
    ok = compare(ctx, key, y.detach(), ref.detach(), exact, dn.ueps(dt), srep, what)
    if y.dtype != dt:
        ctx.viol(key + '/clause=dtype', '%s: output dtype %s' % (what, y.dtype))
    # gradients of a random scalar loss
    if ok and y.numel() > 0:
        wgt = gens.values(list(y.shape), torch.float64, 'gauss', g)
        loss = (y.to(torch.float64) * wgt).sum()
        for p in params.values():
            p.grad = None
        loss.backward()
        (ref * wgt).sum().backward()
        ctx.count('grad_checks')
        rtol = 1e-6 if dt == torch.float64 else 2e-3
        # absolute floor: a reference gradient that cancels to exactly zero still leaves roundoff of the size of the terms that cancelled
        floor = 1e3 * dn.ueps(dt) * dn.fro(wgt) * max(srep, 1e-30) / max(min(dn.fro(c.detach()) for c in cores), 1e-30)
        for k, c in enumerate(cores):
            _gcmp(ctx, 'grad/core', what + ' core %d' % k, c.grad, leaf[k].grad, rtol, floor)
        _gcmp(ctx, 'grad/bias', what + ' bias', layer.bias.grad, bleaf.grad, rtol, 1e3 * dn.ueps(dt) * dn.fro(wgt))
    # ---- history: eval mode, parameters changed in place, forward again (a layer must not answer from stale state) ------------------
    if ok and case['seed'] % 2 == 0:
        ctx.count('history:eval-update-forward')
        ctx.call('LinearLayerTT.eval', lambda: layer.eval())
        y_eval = ctx.lib('LinearLayerTT.forward[eval]', lambda inp: layer(inp), x)
        if isinstance(y_eval, Raised):
            ctx.viol('layer/eval/clause=raises:%s' % y_eval.type, '%s eval-mode forward raised %r' % (what, y_eval))
        else:
            compare(ctx, 'layer/eval', y_eval.detach(), ref.detach(), exact, dn.ueps(dt), srep, what + ' [eval mode]')
        if case['seed'] % 4 == 2:
            # the parameter OBJECTS are replaced (layer.cores[k] = nn.Parameter(...): how a layer is initialised from a given TT operator), not updated in place
            ctx.count('history:core-parameters-replaced')
            for k_ in range(len(cores)):
                layer.cores[k_] = torch.nn.Parameter(gens.values(list(cores[k_].shape), dt, 'int', g, -2, 2) if case['intvals'] else (cores[k_].detach() * 0.5 + 0.25).clone())
            cores = list(layer.cores)
            params = dict(layer.named_parameters())
            with torch.no_grad():
                layer.bias.copy_(gens.values(sout, dt, 'int' if case['intvals'] else 'gauss', g))
        else:
          with torch.no_grad():
            for c in cores:
                c.copy_(gens.values(list(c.shape), dt, 'int', g, -2, 2) if case['intvals'] else c * 0.5 + 0.25)
            layer.bias.copy_(gens.values(sout, dt, 'int' if case['intvals'] else 'gauss', g))
        leaf2 = [c.detach().clone().to(torch.float64).requires_grad_(True) for c in cores]
        b2 = layer.bias.detach().clone().to(torch.float64).requires_grad_(True)
        W2 = leaf2[0].reshape(-1, leaf2[0].shape[-1])
        for c in leaf2[1:]:
            W2 = (W2 @ c.reshape(c.shape[0], -1)).reshape(-1, c.shape[-1])
        W2 = W2.reshape(inter).permute([2 * i for i in range(d)] + [2 * i + 1 for i in range(d)])
        ref2 = torch.tensordot(xr, W2, dims=(list(range(nb, nb + d)), list(range(d, 2 * d)))) + b2
        srep2 = dn.s_rep(cores) * dn.fro(x) + dn.fro(layer.bias.detach())
        bound2 = gens.abs_bound(cores) * float(x.abs().sum()) + float(layer.bias.detach().abs().max())
        y3 = ctx.lib('LinearLayerTT.forward[eval,after-update]', lambda inp: layer(inp), x)
        if isinstance(y3, Raised):
            ctx.viol('layer/eval-after-update/clause=raises:%s' % y3.type, '%s raised %r' % (what, y3))
        else:
            ok3 = compare(ctx, 'layer/eval-after-update', y3.detach(), ref2.detach(), case['intvals'] and gens.exact_ok(dt, bound2), dn.ueps(dt), srep2, what + ' [eval mode, parameters updated in place]')
            if ok3 and y3.numel() > 0:
                if not y3.requires_grad:
                    ctx.viol('grad/eval/clause=output-detached', '%s: eval-mode output does not require grad' % what)
                else:
                    wgt2 = gens.values(list(y3.shape), torch.float64, 'gauss', g)
                    for p_ in params.values():
                        p_.grad = None
                    (y3.to(torch.float64) * wgt2).sum().backward()
                    (ref2 * wgt2).sum().backward()
                    rtol = 1e-6 if dt == torch.float64 else 2e-3
                    floor = 1e3 * dn.ueps(dt) * dn.fro(wgt2) * max(srep2, 1e-30) / max(min(dn.fro(c.detach()) for c in cores), 1e-30)
                    for k, c in enumerate(cores):
                        _gcmp(ctx, 'grad/eval/core', what + ' [eval] core %d' % k, c.grad, leaf2[k].grad, rtol, floor)
        ctx.call('LinearLayerTT.train', lambda: layer.train())
    if dn.fro(ref.detach()) > 0:
        ctx.nontrivial((tuple(sin), tuple(sout), tuple(rank), tuple(batch), case['dtype'], case['init'], case['intvals']))


def _gcmp(ctx, key, what, got, ref, rtol, floor=0.0):
    if got is None:
        ctx.viol(key + '/clause=grad-is-None', what)
        return
    if tuple(got.shape) != tuple(ref.shape):
        ctx.viol(key + '/clause=grad-shape', '%s: %s vs %s' % (what, list(got.shape), list(ref.shape)))
        return
    err = dn.fro(got.to(torch.float64) - ref)
    scale = max(dn.fro(ref), 1e-30)
    ctx.metric('grad_rel_err', err / scale)
    if not err <= rtol * scale + 1e-12 + floor:        # NaN-safe
        ctx.viol(key + '/clause=grad-value', '%s: ||g-gref||=%.3e, ||gref||=%.3e' % (what, err, scale))
