"""C03 - TT-tensor arithmetic equals dense arithmetic entry for entry."""
import random
import itertools
import numpy as np
import torch

from .. import dense as dn
from .. import gens
from ..oracle import compare, expect_tt, check_dtype, check_ranks
from ..ctx import Raised

PROP = 'C03'
RULE = ('cases = bounded-exhaustive (thorough) / seeded sample (quick) of (N1,R1,N2,R2) structures of order 1..3 with sizes and ranks '
        'from {1,2,3} x every broadcasting alignment the library documents (second operand of lower/equal order, trailing alignment, '
        'size-1 modes) x {+,-,*}; random structures to order 5 with pairwise-distinct sizes/ranks; scalar forms x 10 scalar kinds from both '
        'sides; unary, kron/**, full() order 1..6, factories. Oracle: harness-own dense contraction; bit-equality on int-valued cores, '
        '1e3*u*S_rep otherwise; dtype and documented rank structure. distinct = (generator, op, structure, dtype, value class); '
        'non-trivial = non-zero reference and (order>=2 or scalar/broadcast form).')
from ..hist import RULE_SUFFIX as _RS
RULE = RULE + _RS
ASSUMPTIONS = ['float64 reshape+matmul contraction of the cores is the reference value of a TT object',
               'np.int64/np.float32 operands of x*s and x/s and complex divisors are explicitly refused by the library (InvalidArguments) and are outside the workload',
               'broadcasting in which the FIRST operand would be expanded is documented as unsupported and is C18 business']
REQUIRED_REACH = ['_tt_base:TT.__add__', '_tt_base:TT.__sub__', '_tt_base:TT.__rsub__', '_tt_base:TT.__mul__', '_tt_base:TT.__truediv__',
                  '_tt_base:TT.__pow__', '_tt_base:TT.__rpow__', '_extras:kron', '_tt_base:TT.full', '_tt_base:TT.__neg__', '_tt_base:TT.__pos__',
                  '_extras:ones', '_extras:zeros', '_extras:eye', '_extras:meshgrid', '_extras:rank1TT', '_tt_base:TT.__radd__', '_tt_base:TT.__rmul__']
LINE_FUNCS = ['TT.__add__', 'TT.__sub__', 'TT.__rsub__', 'TT.__mul__', 'TT.__truediv__', 'TT.__pow__', 'TT.full', 'kron']
REQUIRED_COUNTS = {'history_value_checks': 200, 'branch:add-equal': 1, 'branch:add-broadcast': 1, 'branch:add-scalar': 1, 'branch:sub-equal': 1, 'branch:sub-broadcast': 1,
                   'branch:sub-scalar': 1, 'branch:mul-equal': 1, 'branch:mul-broadcast': 1, 'branch:mul-scalar': 1, 'branch:mul-zero-scalar': 1,
                   'branch:div-scalar': 1, 'exact_comparisons': 100}
CASE_TIMEOUT = {'quick': 60, 'thorough': 60}

SCALAR_KINDS = ['int', 'negint', 'float', 'complex', 'npf64', 'npi64', 't0', 't1', 'zero', 'zerof', 'float_nr', 'npf64_nr', 't0_nr', 't0_f32', 't0_i64', 't1_i32', 'tiny', 'tinyneg', 'huge', 't0_bigint', 't1_bigint']
NR_KINDS = ('float_nr', 'npf64_nr', 't0_nr')      # values with no finite binary expansion: a detour through another precision is visible
DT = ['f64', 'f64', 'f64', 'f32', 'c128']


def bc_variants(N1):
    """All second-operand shapes the library documents as broadcastable against N1."""
    out = []
    d = len(N1)
    for k in range(1, d + 1):
        tail = N1[d - k:]
        for mask in itertools.product([0, 1], repeat=k):
            N2 = [1 if m else n for m, n in zip(mask, tail)]
            if N2 not in out:
                out.append(N2)
    return out


def cases(tier, seed):
    rng = random.Random('C03|%d' % seed)
    cs = []
    sizes = (1, 2, 3)
    ranks = (1, 2, 3) if tier == 'thorough' else (1, 2, 3)
    # A: structures x broadcasting alignments x ops
    allA = []
    for d in (1, 2, 3):
        for N1 in itertools.product(sizes, repeat=d):
            N1 = list(N1)
            for N2 in bc_variants(N1):
                allA.append((N1, N2))
    A = []
    for (N1, N2) in allA:
        d1, d2 = len(N1), len(N2)
        r1s = list(itertools.product(ranks, repeat=d1 - 1))
        r2s = list(itertools.product(ranks, repeat=d2 - 1))
        for R1 in r1s:
            for R2 in r2s:
                A.append((N1, [1] + list(R1) + [1], N2, [1] + list(R2) + [1]))
    if tier == 'quick':
        rng.shuffle(A)
        # keep every (N1,N2) alignment at least once, then fill
        seen, keep, rest = set(), [], []
        for a in A:
            k = (tuple(a[0]), tuple(a[2]))
            if k not in seen:
                seen.add(k)
                keep.append(a)
            else:
                rest.append(a)
        A = keep + rest[:max(0, 8000 - len(keep))]
    for i, (N1, R1, N2, R2) in enumerate(A):
        for op in (('add', 'sub', 'mul') if tier == 'thorough' else (('add', 'sub', 'mul')[i % 3],)):
            cs.append({'gen': 'binop', 'op': op, 'N1': N1, 'R1': R1, 'N2': N2, 'R2': R2, 'dtype': DT[i % 5] if i % 7 else 'f64',
                       'vals': 'gauss' if i % 4 == 3 else 'int'})
    # the same object on both sides of the operator (x - x is exactly zero, x + x = 2x, x * x = x^2): nothing temporary done to one operand may show through the other
    for i in range(90 if tier == 'quick' else 900):
        d = rng.randint(1, 4)
        Ns = [rng.choice((1, 2, 3, 4)) for _ in range(d)]
        Rs = gens.rank_profile(rng, d, 'rand', 3)
        cs.append({'gen': 'binop', 'op': ['sub', 'add', 'mul'][i % 3], 'N1': Ns, 'R1': Rs, 'N2': list(Ns), 'R2': list(Rs), 'dtype': DT[i % 5], 'vals': 'gauss' if i % 4 == 3 else 'int', 'same': True})
    # B: random larger structures
    nB = 2000 if tier == 'quick' else 30000
    for i in range(nB):
        d = rng.randint(2, 5)
        N1 = gens.modes(rng, d, (1, 2, 3, 4, 5, 7))
        R1 = gens.rank_profile(rng, d, rng.choice(['distinct', 'rand', 'uniform', 'one']), 3)
        N2 = rng.choice(bc_variants(N1)) if rng.random() < 0.6 else list(N1)
        R2 = gens.rank_profile(rng, len(N2), rng.choice(['distinct', 'rand', 'uniform', 'one']), 3)
        cs.append({'gen': 'binop', 'op': rng.choice(['add', 'sub', 'mul']), 'N1': N1, 'R1': R1, 'N2': N2, 'R2': R2,
                   'dtype': rng.choice(DT), 'vals': rng.choice(['int', 'int', 'gauss'])})
    # C: scalar forms
    structs = [([3], [1, 1]), ([1], [1, 1]), ([2, 3], [1, 2, 1]), ([3, 1], [1, 2, 1]), ([1, 2], [1, 1, 1]), ([2, 3, 4], [1, 2, 3, 1]),
               ([2, 1, 3], [1, 3, 2, 1]), ([2, 2, 2, 2], [1, 2, 2, 2, 1])]
    if tier == 'thorough':
        structs += [(list(N), [1] + list(R) + [1]) for d in (1, 2, 3) for N in itertools.product((1, 2, 3), repeat=d)
                    for R in itertools.product((1, 2), repeat=d - 1)]
    for (N, R) in structs:
        for op in ('add', 'radd', 'sub', 'rsub', 'mul', 'rmul', 'div'):
            for sk in SCALAR_KINDS:
                for dt in ('f64', 'f32', 'c128'):
                    if sk == 'complex' and dt != 'c128':
                        continue
                    if op == 'div' and sk in ('complex', 'zero', 'zerof', 'npi64'):
                        continue
                    if op == 'mul' and sk == 'npi64':
                        continue          # explicitly refused (InvalidArguments); see ASSUMPTIONS
                    if sk == 't0_f32' and dt == 'f32':
                        continue          # same dtype: that is kind t0
                    if tier == 'quick' and dt != 'f64' and (len(N) * 7 + SCALAR_KINDS.index(sk)) % 3:
                        continue
                    cs.append({'gen': 'scalar', 'op': op, 'N': N, 'R': R, 'kind': sk, 'dtype': dt, 'vals': 'int'})
    # D: unary, kron
    for i in range(400 if tier == 'quick' else 6000):
        d1, d2 = rng.randint(1, 3), rng.randint(1, 3)
        N1, N2 = gens.modes(rng, d1, (1, 2, 3, 4)), gens.modes(rng, d2, (1, 2, 3, 5))
        c = {'gen': 'unary', 'op': rng.choice(['neg', 'pos', 'pow', 'kron', 'pow_none', 'rpow_none', 'kron_none_l', 'kron_none_r']),
             'N1': N1, 'R1': gens.rank_profile(rng, d1, 'rand', 3), 'N2': N2, 'R2': gens.rank_profile(rng, d2, 'rand', 3),
             'dtype': rng.choice(DT), 'vals': 'int', 'ttm': rng.random() < 0.25}
        cs.append(c)
    for op in ('neg', 'pos', 'pow', 'kron', 'pow_none', 'rpow_none', 'kron_none_l', 'kron_none_r'):
        cs.append({'gen': 'unary', 'op': op, 'N1': [2, 3], 'R1': [1, 2, 1], 'N2': [4], 'R2': [1, 1], 'dtype': 'f64', 'vals': 'int', 'ttm': False})
    # E: full()
    for d in range(1, 7):
        for rep in range(20 if tier == 'quick' else 300):
            N = gens.modes(rng, d, (1, 2, 3, 4), distinct=False)
            cs.append({'gen': 'full', 'N': N, 'R': gens.rank_profile(rng, d, 'rand', 3), 'dtype': rng.choice(DT), 'vals': rng.choice(['int', 'gauss'])})
    for N in ([1], [2], [1, 1], [1, 1, 1], [1, 2, 1]):
        cs.append({'gen': 'full', 'N': N, 'R': [1] * (len(N) + 1), 'dtype': 'f64', 'vals': 'int'})
    # F: factories
    for i in range(240 if tier == 'quick' else 2400):
        d = rng.randint(1, 4)
        cs.append({'gen': 'factory', 'which': ['ones', 'zeros', 'eye', 'rank1TT', 'meshgrid', 'ones_ttm', 'zeros_ttm', 'rank1TTM'][i % 8],
                   'N': gens.modes(rng, d, (1, 2, 3, 4), distinct=False), 'M': gens.modes(rng, d, (1, 2, 3), distinct=False),
                   'dtype': ['f64', 'f32', 'c128'][i % 3]})
    from .. import hist
    cs += hist.cases(PROP, tier, seed)
    return cs


# ---------------------------------------------------------------------------------------------------

def scalar_of(kind, dtype):
    cplx = gens.is_complex(dtype)
    return {'int': 2, 'negint': -3, 'float': 0.5, 'complex': (1 + 2j), 'npf64': np.float64(0.5), 'npi64': np.int64(2),
            't0': torch.tensor(2.0, dtype=dtype), 't1': torch.tensor([2.0], dtype=dtype), 'zero': 0, 'zerof': 0.0,
            'float_nr': 0.3, 'npf64_nr': np.float64(-0.7), 't0_nr': torch.tensor(0.3, dtype=dtype),
            # tensor scalars whose dtype is NOT the dtype of the TT (lower in torch's promotion order: the result keeps the TT's dtype and must be computed in it)
            'tiny': 1e-18, 'tinyneg': -3e-17, 'huge': 1e18,
            # integer tensor scalars that float32 cannot hold (|s| > 2**24): any detour through float32 is off by several units
            't0_bigint': torch.tensor(123456789), 't1_bigint': torch.tensor([-1000000007]),
            't0_f32': torch.tensor(3.0, dtype=torch.float32), 't0_i64': torch.tensor(3), 't1_i32': torch.tensor([6], dtype=torch.int32)}[kind]


def scalar_ref(kind, s=None):
    if kind == 't0_nr':
        v = s.item()          # the value the 0-d tensor actually holds in its own dtype
        return v.real if isinstance(v, complex) and v.imag == 0 else v
    if kind in ('float_nr', 'npf64_nr'):
        return float(s)
    return {'int': 2, 'negint': -3, 'float': 0.5, 'complex': (1 + 2j), 'npf64': 0.5, 'npi64': 2, 't0': 2.0, 't1': 2.0, 'zero': 0, 'zerof': 0.0, 't0_f32': 3.0, 't0_i64': 3, 't1_i32': 6, 'tiny': 1e-18, 'tinyneg': -3e-17, 'huge': 1e18, 't0_bigint': 123456789, 't1_bigint': -1000000007}[kind]


def run_case(case, ctx):
    g = gens.tgen(case['seed'])
    globals()['run_' + case['gen']](case, ctx, g)


def run_hist(case, ctx, g):
    from .. import hist
    hist.run(PROP, case, ctx)


def run_binop(case, ctx, g):
    dt = dn.dtype_of(case['dtype'])
    x = gens.make_tt(case['N1'], case['R1'], dt, case['vals'], g)
    y = gens.make_tt(case['N2'], case['R2'], dt, case['vals'], g)
    if case.get('same'):
        y = x           # THE SAME OBJECT on both sides (x - x, x + x, x * x)
        ctx.count('binop/same-object-on-both-sides')
    op = case['op']
    equal = case['N1'] == case['N2']
    ctx.count('branch:%s-%s' % (op, 'equal' if equal else 'broadcast'))
    key = 'binop/%s/%s' % (op, 'equal-shape' if equal else 'broadcast')
    fn = {'add': lambda a, b: a + b, 'sub': lambda a, b: a - b, 'mul': lambda a, b: a * b}[op]
    # reference quantities are taken BEFORE the call (an operation that mutates its operand must not move the reference)
    dx, dy = dn.D(x), dn.D(y)
    ref = fn(dx, dy)
    bound = gens.abs_bound(x) * gens.abs_bound(y) if op == 'mul' else gens.abs_bound(x) + gens.abs_bound(y)
    exact = case['vals'] == 'int' and gens.exact_ok(dt, bound)
    scale = dn.s_rep(x) * dn.s_rep(y) if op == 'mul' else dn.s_rep(x) + dn.s_rep(y)
    res = ctx.lib('TT%sTT' % {'add': '+', 'sub': '-', 'mul': '*'}[op], fn, x, y)
    what = '%s N1=%s R1=%s N2=%s R2=%s %s' % (op, case['N1'], case['R1'], case['N2'], case['R2'], case['dtype'])
    if not expect_tt(ctx, key, res, what):
        return
    try:
        got = dn.D(res)
    except ValueError as e:
        ctx.viol(key + '/clause=ill-formed-result', '%s: %s' % (what, e))
        return
    compare(ctx, key, got, ref, exact, dn.ueps(dt), scale, what)
    check_dtype(ctx, key, res, dt, what)
    d1, d2 = len(case['N1']), len(case['N2'])
    R2e = [1] * (d1 - d2) + case['R2']
    if op == 'mul':
        # leading modes are copied (rank unchanged)
        exp = [1] + [case['R1'][i] * R2e[i] for i in range(1, d1)] + [1]
    else:
        exp = [1] + [case['R1'][i] + R2e[i] for i in range(1, d1)] + [1]
    check_ranks(ctx, key, res, exp, what)
    if dn.fro(ref) > 0 and (d1 >= 2 or not equal):
        ctx.nontrivial(('binop', op, tuple(case['N1']), tuple(case['R1']), tuple(case['N2']), tuple(case['R2']), case['dtype'], case['vals']))


def run_scalar(case, ctx, g):
    dt = dn.dtype_of(case['dtype'])
    x = gens.make_tt(case['N'], case['R'], dt, case['vals'], g)
    op, kind = case['op'], case['kind']
    s = scalar_of(kind, dt)
    sr = scalar_ref(kind, s)
    fns = {'add': lambda a, b: a + b, 'radd': lambda a, b: b + a, 'sub': lambda a, b: a - b, 'rsub': lambda a, b: b - a,
           'mul': lambda a, b: a * b, 'rmul': lambda a, b: b * a, 'div': lambda a, b: a / b}
    base = {'add': 'add', 'radd': 'add', 'sub': 'sub', 'rsub': 'sub', 'mul': 'mul', 'rmul': 'mul', 'div': 'div'}[op]
    if base == 'mul' and sr == 0:
        ctx.count('branch:mul-zero-scalar')
    else:
        ctx.count('branch:%s-scalar' % base)
    base_ = base
    skind = 'tensor-scalar' if kind in ('t0', 't1', 't0_nr') else ('tensor-scalar(other dtype)' if kind in ('t0_f32', 't0_i64', 't1_i32', 't0_bigint', 't1_bigint') else ('numpy-scalar' if kind.startswith('np') else 'python-scalar'))
    key = 'scalar/%s/%s' % (op, skind)
    what = 'x %s scalar(%s=%r) N=%s R=%s %s' % (op, kind, sr, case['N'], case['R'], case['dtype'])
    dx = dn.D(x)
    ref = fns[op](dx, sr)
    exact = gens.exact_ok(dt, (gens.abs_bound(x) + 4) * 4) and not (op == 'div' and abs(sr) not in (0.25, 0.5, 1, 2, 4)) and kind not in NR_KINDS
    srep = dn.s_rep(x)
    res = ctx.lib('TT.%s.scalar' % op, fns[op], x, s)
    try:
        if not dn.bit_equal(dn.D(x), dx):
            ctx.viol(key + '/clause=operand-changed', '%s: the TT operand no longer has the value it had before the call' % what)
    except ValueError:
        ctx.viol(key + '/clause=operand-changed', '%s: the TT operand is ill-formed after the call' % what)
    if not expect_tt(ctx, key, res, what):
        return
    try:
        got = dn.D(res)
    except ValueError as e:
        ctx.viol(key + '/clause=ill-formed-result', '%s: %s' % (what, e))
        return
    if kind in ('tiny', 'tinyneg', 'huge', 't0_bigint', 't1_bigint'):
        # scalars far from 1: the allowance follows the size of the exact result (a product with 1e-18 that comes back as 0 is off by 100 %, not by roundoff)
        a_ = abs(sr)
        mag = srep * a_ if base_ == 'mul' else (srep / a_ if base_ == 'div' else srep + a_ * max(1, ref.numel()) ** 0.5)
        compare(ctx, key, got, ref, False, dn.ueps(dt), mag, what)
    else:
        compare(ctx, key, got, ref, exact, dn.ueps(dt), srep * 4 + 4, what)
    if not (kind == 'complex' and not gens.is_complex(dt)):
        check_dtype(ctx, key, res, dt, what)
    if base in ('add', 'sub'):
        check_ranks(ctx, key, res, [1] + [r + 1 for r in case['R'][1:-1]] + [1], what)
    elif sr != 0:
        check_ranks(ctx, key, res, case['R'], what)
    if dn.fro(ref) > 0:
        ctx.nontrivial(('scalar', op, kind, tuple(case['N']), tuple(case['R']), case['dtype']))


def run_unary(case, ctx, g):
    import torchtt
    dt = dn.dtype_of(case['dtype'])
    ttm = case.get('ttm', False)
    M1 = [n % 3 + 1 for n in case['N1']] if ttm else None
    M2 = [n % 2 + 1 for n in case['N2']] if ttm else None
    x = gens.make_tt(case['N1'], case['R1'], dt, case['vals'], g, M=M1)
    y = gens.make_tt(case['N2'], case['R2'], dt, case['vals'], g, M=M2)
    op = case['op']
    mixed = None
    if op in ('pow', 'kron') and case['seed'] % 4 == 2:
        # operands of DIFFERENT dtypes: the Kronecker product takes torch's promoted dtype (float64 x complex64 -> complex128) and loses nothing of either factor
        pair = [(torch.float64, torch.complex64), (torch.complex64, torch.float64), (torch.float32, torch.float64), (torch.float32, torch.complex128)][(case['seed'] // 4) % 4]
        x = gens.make_tt(case['N1'], case['R1'], pair[0], 'gauss', g, M=M1)
        y = gens.make_tt(case['N2'], case['R2'], pair[1], 'gauss', g, M=M2)
        mixed = torch.promote_types(pair[0], pair[1])
        dt = mixed
        ctx.count('kron:mixed-dtypes')
    kindname = 'operator' if ttm else 'tensor'
    key = 'unary/%s/%s' % (op, kindname)
    what = '%s N1=%s R1=%s N2=%s R2=%s ttm=%s %s' % (op, case['N1'], case['R1'], case['N2'], case['R2'], ttm, case['dtype'])
    dx, dy = dn.D(x), dn.D(y)

    def kr(a, b):
        if a.dtype != b.dtype:
            ct = torch.promote_types(a.dtype, b.dtype)
            a, b = a.to(ct), b.to(ct)
        if not ttm:
            return torch.tensordot(a, b, dims=0)
        t = torch.tensordot(a, b, dims=0)   # M1 N1 M2 N2
        da, db = len(case['N1']), len(case['N2'])
        perm = list(range(da)) + list(range(2 * da, 2 * da + db)) + list(range(da, 2 * da)) + list(range(2 * da + db, 2 * da + 2 * db))
        return t.permute(perm)
    if op == 'neg':
        res, ref, expR = ctx.lib('TT.neg', lambda a: -a, x), -dx, case['R1']
    elif op == 'pos':
        res, ref, expR = ctx.lib('TT.pos', lambda a: +a, x), dx, case['R1']
    elif op == 'pow':
        res, ref, expR = ctx.lib('TT**TT', lambda a, b: a ** b, x, y), kr(dx, dy), case['R1'] + case['R2'][1:]
    elif op == 'kron':
        res, ref, expR = ctx.lib('kron', torchtt.kron, x, y), kr(dx, dy), case['R1'] + case['R2'][1:]
    elif op == 'pow_none':
        res, ref, expR = ctx.lib('TT**None', lambda a: a ** None, x), dx, case['R1']
    elif op == 'rpow_none':
        res, ref, expR = ctx.lib('None**TT', lambda a: None ** a, x), dx, case['R1']
    elif op == 'kron_none_l':
        res, ref, expR = ctx.lib('kron(None,TT)', lambda a: torchtt.kron(None, a), x), dx, case['R1']
    else:
        res, ref, expR = ctx.lib('kron(TT,None)', lambda a: torchtt.kron(a, None), x), dx, case['R1']
    if not expect_tt(ctx, key, res, what):
        return
    try:
        got = dn.D(res)
    except ValueError as e:
        ctx.viol(key + '/clause=ill-formed-result', '%s: %s' % (what, e))
        return
    exact = gens.exact_ok(dt, gens.abs_bound(x) * gens.abs_bound(y)) and mixed is None
    if mixed is not None:
        ref = ref.to(torch.complex128) if mixed.is_complex else ref.to(torch.float64)
    compare(ctx, key, got, ref, exact, dn.ueps(dt), dn.s_rep(x) * dn.s_rep(y), what)
    check_dtype(ctx, key, res, dt, what)
    check_ranks(ctx, key, res, expR, what)
    # result must not share storage with the operand (documented clones)
    if op in ('neg', 'pos', 'pow', 'kron', 'pow_none', 'rpow_none', 'kron_none_l', 'kron_none_r'):
        ptrs = {c.data_ptr() for c in x.cores} | {c.data_ptr() for c in y.cores}
        if any(c.data_ptr() in ptrs and c.numel() > 0 for c in res.cores):
            ctx.count('result_shares_storage_with_operand')
    if dn.fro(ref) > 0:
        ctx.nontrivial(('unary', op, ttm, tuple(case['N1']), tuple(case['R1']), tuple(case['N2']), tuple(case['R2']), case['dtype']))


def run_full(case, ctx, g):
    dt = dn.dtype_of(case['dtype'])
    x = gens.make_tt(case['N'], case['R'], dt, case['vals'], g)
    key = 'full/tensor/order%s' % ('1' if len(case['N']) == 1 else '>=2')
    what = 'full() N=%s R=%s %s' % (case['N'], case['R'], case['dtype'])
    ref = dn.D(x)
    f = ctx.lib('TT.full', lambda a: a.full(), x)
    if isinstance(f, Raised):
        ctx.viol(key + '/clause=raises:%s' % f.type, '%s raised %r' % (what, f))
        return
    exact = case['vals'] == 'int' and gens.exact_ok(dt, gens.abs_bound(x))
    compare(ctx, key, f, ref, exact, dn.ueps(dt), dn.s_rep(x), what)
    if f.dtype != dt:
        ctx.viol(key + '/clause=dtype', '%s: dtype %s' % (what, f.dtype))
    if dn.fro(ref) > 0:
        ctx.nontrivial(('full', tuple(case['N']), tuple(case['R']), case['dtype'], case['vals']))


def run_factory(case, ctx, g):
    import torchtt
    dt = dn.dtype_of(case['dtype'])
    which, N, M = case['which'], case['N'], case['M']
    key = 'factory/%s' % which
    what = '%s N=%s M=%s %s' % (which, N, M, case['dtype'])
    if which == 'ones':
        res, ref = ctx.lib('ones', torchtt.ones, N, dtype=dt), torch.ones(N, dtype=dn.up(dt))
    elif which == 'zeros':
        res, ref = ctx.lib('zeros', torchtt.zeros, N, dtype=dt), torch.zeros(N, dtype=dn.up(dt))
    elif which == 'ones_ttm':
        res, ref = ctx.lib('ones', torchtt.ones, list(zip(M, N)), dtype=dt), torch.ones(M + N, dtype=dn.up(dt))
    elif which == 'zeros_ttm':
        res, ref = ctx.lib('zeros', torchtt.zeros, list(zip(M, N)), dtype=dt), torch.zeros(M + N, dtype=dn.up(dt))
    elif which == 'eye':
        res = ctx.lib('eye', torchtt.eye, N, dtype=dt)
        n = dn.prod(N)
        ref = torch.eye(n, dtype=dn.up(dt)).reshape(N + N)
    elif which == 'rank1TT':
        vs = [gens.values([n], dt, 'int', g) for n in N]
        res = ctx.lib('rank1TT', torchtt.rank1TT, vs)
        ref = dn.to_up(vs[0])
        for v in vs[1:]:
            ref = torch.tensordot(ref, dn.to_up(v), dims=0)
    elif which == 'rank1TTM':
        ms = [gens.values([m, n], dt, 'int', g) for m, n in zip(M, N)]
        res = ctx.lib('rank1TT', torchtt.rank1TT, ms)
        d = len(N)
        ref = dn.to_up(ms[0])
        for v in ms[1:]:
            ref = torch.tensordot(ref, dn.to_up(v), dims=0)
        ref = ref.permute([2 * i for i in range(d)] + [2 * i + 1 for i in range(d)])
    else:  # meshgrid
        vs = [gens.values([n], dt, 'int', g) for n in N]
        res = ctx.lib('meshgrid', torchtt.meshgrid, vs)
        if isinstance(res, Raised):
            ctx.viol(key + '/clause=raises:%s' % res.type, '%s raised %r' % (what, res))
            return
        refs = torch.meshgrid(*[dn.to_up(v) for v in vs], indexing='ij')
        if len(res) != len(N):
            ctx.viol(key + '/clause=count', '%s: %d grids' % (what, len(res)))
            return
        for k, (r, rf) in enumerate(zip(res, refs)):
            if expect_tt(ctx, key, r, what):
                compare(ctx, key, dn.D(r), rf, True, dn.ueps(dt), 1.0, what + ' grid %d' % k)
                check_dtype(ctx, key, r, dt, what)
        ctx.nontrivial(('factory', which, tuple(N), case['dtype']))
        return
    if not expect_tt(ctx, key, res, what):
        return
    compare(ctx, key, dn.D(res), ref, True, dn.ueps(dt), 1.0, what)
    check_dtype(ctx, key, res, dt, what)
    if which != 'rank1TT' and which != 'rank1TTM':
        check_ranks(ctx, key, res, [1] * (len(N) + 1), what)
    ctx.nontrivial(('factory', which, tuple(N), tuple(M), case['dtype']))
