"""C02 - rounding never exceeds eps, never raises a rank, and leaves its operand intact."""
import math
import random
import numpy as np
import torch

from .. import dense as dn
from .. import gens
from .. import hooks
from ..ctx import Raised

PROP = 'C02'
RULE = ('cases = x.round(eps, rmax) for TT tensors and TT matrices of order 1..7: Gaussian non-orthogonal cores, graded core scales (1e-9..1e8), over-parameterised '
        '(x+x-x, zero-padded ranks, rank > mode size), exactly low-rank stored with inflated ranks, cancellation (a+delta*b)-a, zero, superdiagonal tensors with '
        'prescribed spectra written as TT and pushed through random ill-conditioned gauges; eps in {0, 1e-14..0.5}; rmax none/int/list; real/complex/f32; plus '
        'ADAPTIVE STRESS: eps grid + bisection of every rank-vector change to adjacent floats against the real code, every execution checked. Oracle per execution: '
        'new object, operand bit-identical afterwards, same shape, R_y<=R_x, R_y<=rmax, R_y<=exact unfolding ranks (when roundoff noise is well below the threshold), '
        '||D(y)-D(x)|| <= eps||D(x)|| + 1e3 u S_rep when no rank hits rmax. distinct = (generator, structure, dtype, rmax form, result ranks); '
        'non-trivial = some rank strictly decreased.')
from ..hist import RULE_SUFFIX as _RS
RULE = RULE + _RS
ASSUMPTIONS = ['exact unfolding ranks of D(x) are measured by the harness (singular values above 1e-10 / 1e-5 relative); the clause is applied only when '
               '1e3*u*S_rep < 0.1*eps*||D(x)|| so representation roundoff cannot legitimately hold a rank up',
               '"rmax binding" decided conservatively: error clause skipped whenever a returned rank equals its cap']
REQUIRED_REACH = ['_decomposition:round_tt', '_decomposition:lr_orthogonal', '_decomposition:rank_chop', '_tt_base:TT.round']
REQUIRED_COUNTS = {'history_value_checks': 200, 'kind:tensor': 1, 'kind:operator': 1, 'order1': 1, 'rmax:int': 1, 'rmax:list': 1, 'rmax:list-reused-across-calls': 5, 'eps:zero': 1, 'rank_decreased_executions': 50,
                   'breakpoints_bisected': 5, 'operand_checked_bit_identical': 100, 'exact_rank_clause_applied': 20}
LINE_FUNCS = ['round_tt', 'lr_orthogonal', 'TT.round', 'rank_chop']
CASE_TIMEOUT = {'quick': 120, 'thorough': 300}
DTS = ['f64', 'f64', 'c128', 'f32', 'c64']
KINDS = ['gauss', 'inflated', 'graded', 'gauge', 'overparam', 'cancel', 'zero', 'bigrank', 'gauge_int']


def cases(tier, seed):
    rng = random.Random('C02|%d' % seed)
    T = tier == 'thorough'
    cs = []
    for i in range(2000 if not T else 40000):
        d = rng.choice([1, 2, 2, 3, 3, 4, 4, 5, 6, 7])
        ttm = i % 4 == 3
        pool = (1, 2, 3, 4, 5) if d <= 4 else (1, 2, 3)
        cs.append({'gen': 'random', 'kind': KINDS[i % len(KINDS)], 'N': [rng.choice(pool) for _ in range(d)], 'M': [rng.choice((1, 2, 3) if d <= 4 else (1, 2)) for _ in range(d)] if ttm else None,
                   'dtype': DTS[(i // 9) % 5], 'eps': [0.0, 1e-14, 1e-12, 1e-8, 1e-4, 1e-2, 0.1, 0.5][(i // 2) % 8] if i % 3 else 10 ** rng.uniform(-13, -0.3),
                   'rmax': ['none', 'none', 'int', 'list'][(i // 7) % 4]})
    for i in range(150 if not T else 2500):
        d = rng.choice([2, 3, 3, 4, 5])
        kind = ['gauge_int', 'gauge', 'inflated', 'gauge_flat', 'gauss', 'gauge_int'][i % 6]
        ttm = i % 5 == 4
        n = rng.choice((3, 4))
        Ng = [n] * d
        if kind.startswith('gauge') and i % 3 == 1 and d >= 3:
            for _ in range(rng.randint(1, 2)):
                Ng[rng.randrange(1, d - 1)] = 1          # interior singleton modes
        cs.append({'gen': 'breakpoints', 'kind': kind, 'N': Ng if kind.startswith('gauge') else [rng.choice((2, 3, 4)) for _ in range(d)],
                   'M': ([1] * d if kind.startswith('gauge') else [rng.choice((1, 2)) for _ in range(d)]) if ttm else None,
                   'dtype': ['f64', 'c128', 'f64', 'f32'][i % 4], 'rmax': 'none', 'grid': 20 if not T else 40})
    # directed: a right bond of rank r whose r-1 small weights all stay above the threshold, next to a bond carrying one mid-size component: the decision at the
    # left bond is only right if the weights of the right bond have been carried over (they shift that component from b/sqrt(r) to b relative to the norm)
    for i in range(24 if not T else 300):
        cs.append({'gen': 'breakpoints', 'kind': 'tail', 'N': [0, 0, 0] if i % 3 else [2, 0, 0, 0], 'M': None if i % 4 != 3 else 'ones', 'dtype': ['f64', 'c128', 'f64', 'f32'][i % 4],
                   'rmax': 'none', 'grid': 20 if not T else 40, 'r': rng.randint(5, 12)})
    # directed: LONG unfoldings (4e4 .. 2e5 columns) with genuine content at 1e-11 of the norm (x = a + 1e-11 b), rounded at eps = 0 / 1e-12 without rank cap: a "numerical rank"
    # tolerance that grows with the matrix size (max(rows, cols) * machine eps) would discard it
    for i in range(4 if not T else 24):
        shp = [([3, 200, 2], [3, 200, 2]), ([4, 50000, 3], None), ([60000, 4], None), ([2, 150, 3], [2, 300, 1])][i % 4]
        cs.append({'gen': 'random', 'kind': 'long_small_term', 'N': shp[0], 'M': shp[1], 'dtype': ['f64', 'c128'][(i // 4) % 2], 'eps': [0.0, 1e-12][(i // 2) % 2], 'rmax': 'none'})
    from .. import hist
    cs += hist.cases(PROP, tier, seed)
    # directed: deep geometric decay (singular values 10^(-1.25 j) down to 1e-12 of the norm), explored from eps = 1e-13 upwards: tails that matter only at tiny eps
    for i in range(8 if not T else 80):
        cs.append({'gen': 'breakpoints', 'kind': 'gauge_deep', 'N': [rng.choice((9, 10, 11))] * 3, 'M': None if i % 3 else 'ones', 'dtype': ['f64', 'c128'][i % 2], 'rmax': 'none',
                   'grid': 20 if not T else 40, 'lo_exp': -13})
    return cs


def build_tail(case, g, dt):
    import torchtt
    rr = random.Random(case['seed'])
    r = case['r']
    lead = [n for n in case['N'] if n]
    n0, n1, n2 = r + 1 + rr.randint(0, 2), rr.choice((2, 3)), r + rr.randint(0, 2)
    up = dn.up(dt)
    U, Gm, W = gens.orth(n0, g, up), gens.orth(n1, g, up), gens.orth(n2, g, up)
    h = gens.orth(n1, g, up)[:, 0]
    delta = 10.0 ** rr.uniform(-3, -1.5) if dt not in (torch.float32, torch.complex64) else 10.0 ** rr.uniform(-2, -1.3)
    b = delta * rr.uniform(0.8, 2.5)
    c0 = torch.zeros((1, n0, r + 1), dtype=up)
    c0[0] = U[:, :r + 1]
    c1 = torch.zeros((r + 1, n1, r), dtype=up)
    c1[0, :, 0] = Gm[:, 0]
    c1[1, :, 0] = b * Gm[:, 1]
    for k in range(1, r):
        c1[k + 1, :, k] = delta * h
    c2 = torch.zeros((r, n2, 1), dtype=up)
    c2[:, :, 0] = W[:, :r].T
    cores = [c0, c1, c2]
    for n in lead:      # a leading rank-1 mode: the lossy bond becomes interior
        v = gens.orth(n, g, up)[:, 0].reshape(1, n, 1)
        cores = [v] + cores
    cores = _gauge([c.to(dt) for c in cores], g, dt, cond=30.0)
    if case['M'] == 'ones':
        cores = [c.reshape(c.shape[0], 1, c.shape[1], c.shape[2]) for c in cores]
    return torchtt.TT(cores)


def build(case, ctx, g):
    """Build the operand (through the monitors when library operations are used to construct it)."""
    import torchtt
    dt = dn.dtype_of(case['dtype'])
    if case['kind'] == 'tail':
        return build_tail(case, g, dt)
    N, M, kind = case['N'], case['M'], case['kind']
    d = len(N)
    rr = random.Random(case['seed'])
    R = [1] + [rr.randint(1, 4) for _ in range(d - 1)] + [1]
    if kind == 'gauss':
        return gens.make_tt(N, R, dt, 'gauss', g, M=M)
    if kind == 'zero':
        return gens.make_tt(N, R, dt, 'zero', g, M=M)
    if kind == 'bigrank':
        Rb = [1] + [rr.randint(4, 7) for _ in range(d - 1)] + [1]      # ranks larger than the modes: rank-deficient unfoldings
        return gens.make_tt(N, Rb, dt, 'gauss', g, M=M)
    if kind == 'graded':
        scales = [10.0 ** rr.uniform(-9, 8) for _ in range(d)]
        if dt in (torch.float32, torch.complex64):
            scales = [10.0 ** rr.uniform(-3, 3) for _ in range(d)]
        return gens.make_tt(N, R, dt, 'gauss', g, M=M, scales=scales)
    if kind == 'inflated':
        # exact ranks R, stored with ranks R+K: zero-padded then mixed by random invertible gauges
        cores = gens.make_cores(N, R, dt, 'gauss', g, M=M)
        K = [0] + [rr.randint(1, 3) for _ in range(d - 1)] + [0]
        big = []
        for k, c in enumerate(cores):
            sh = list(c.shape)
            sh[0] += K[k]
            sh[-1] += K[k + 1]
            b = torch.zeros(sh, dtype=dt)
            b[tuple([slice(0, c.shape[0])] + [slice(None)] * (c.dim() - 2) + [slice(0, c.shape[-1])])] = c
            big.append(b)
        return torchtt.TT(_gauge(big, g, dt, cond=10.0))
    if kind == 'overparam':
        x = gens.make_tt(N, R, dt, 'gauss', g, M=M)
        y = ctx.call('add', lambda a: a + a, x)
        return ctx.call('sub', lambda a, b: a - b, y, x)
    if kind == 'long_small_term':
        a = gens.make_tt(N, [1] + [2] * (d - 1) + [1], dt, 'gauss', g, M=M)
        b = gens.make_tt(N, [1] * (d + 1), dt, 'gauss', g, M=M)
        fa, fb = dn.fro(dn.D(a)), dn.fro(dn.D(b))
        ctx.count('kind:long-unfolding-with-a-1e-11-term')
        return ctx.call('add', lambda p, q: p + (1e-11 * fa / max(fb, 1e-300)) * q, a, b)
    if kind == 'cancel':
        a = gens.make_tt(N, R, dt, 'gauss', g, M=M)
        b = gens.make_tt(N, R, dt, 'gauss', g, M=M)
        delta = 10.0 ** rr.uniform(-6, -1)
        t = ctx.call('add', lambda p, q: p + delta * q, a, b)
        return ctx.call('sub', lambda p, q: p - q, t, a)
    # gauge*: superdiagonal tensor with prescribed spectrum, written as a TT by the harness, pushed through a gauge
    if M == 'ones':
        M = [1] * len(N)
    modes = [m * n for m, n in zip(M, N)] if M else list(N)
    r = max(1, min([m for m in modes if m > 1] or [1]))      # spectrum lives on the non-singleton modes; singleton modes just pass the bond through
    if kind == 'gauge_deep':
        s = [10.0 ** (-1.25 * j) for j in range(r)]
    elif kind in ('gauge_int',):
        s = sorted([float(rr.randint(1, 6)) for _ in range(r)], reverse=True)
    elif kind == 'gauge_flat':
        s = [rr.uniform(1, 3)] + [rr.uniform(0.05, 0.3)] * (r - 1)
    else:
        q = rr.uniform(0.05, 0.7)
        s = [q ** j for j in range(r)]
    cores = []
    for k in range(d):
        Q = gens.orth(modes[k], g, dn.up(dt))[:, :r] if modes[k] > 1 else torch.ones((1, r), dtype=dn.up(dt))    # singleton mode: identity on the bond
        rl = 1 if k == 0 else r
        rrk = 1 if k == d - 1 else r
        c = torch.zeros((rl, modes[k], rrk), dtype=dn.up(dt))
        for j in range(r):
            c[0 if k == 0 else j, :, 0 if k == d - 1 else j] += Q[:, j] * (s[j] if k == 0 else 1.0)
        cores.append(c.to(dt))
    cores = _gauge(cores, g, dt, cond={'gauge_int': 4.0, 'gauge_deep': 10.0}.get(kind, 1e3))
    if M:
        cores = [c.reshape(c.shape[0], m, n, c.shape[-1]) for c, m, n in zip(cores, M, N)]
    return torchtt.TT(cores)


def _gauge(cores, g, dt, cond):
    """G_k <- G_k T_k, G_{k+1} <- T_k^{-1} G_{k+1} with random T_k of the given condition number."""
    out = [c.clone() for c in cores]
    for k in range(len(out) - 1):
        r = out[k].shape[-1]
        U = gens.orth(r, g, dn.up(dt))
        V = gens.orth(r, g, dn.up(dt))
        sv = torch.logspace(0, math.log10(cond), r, dtype=torch.float64) if r > 1 else torch.ones(1, dtype=torch.float64)
        Tm = (U * sv.to(U.dtype)) @ V.conj().T
        Ti = (V * (1.0 / sv).to(U.dtype)) @ U.conj().T
        a, b = out[k], out[k + 1]
        out[k] = (a.reshape(-1, r).to(Tm.dtype) @ Tm).reshape(a.shape).to(dt)
        out[k + 1] = (Ti @ b.reshape(r, -1).to(Tm.dtype)).reshape(b.shape).to(dt)
    return out


def observe(ctx, case, x, dx, srep, nrm, exact_ranks, eps, rmax, label, caps_written=None):
    import torchtt
    dt = x.cores[0].dtype
    d = len(x.N)
    kind = 'operator' if x.is_ttm else 'tensor'
    key = 'round/%s/%s' % (kind, 'order1' if d == 1 else 'order>=2')
    what = '%s round(eps=%r, rmax=%r) of %s [%s]' % (label, eps, rmax, hooks.signature(x), case['kind'])
    ctx.count('executions')
    snap = hooks.Snap(x)
    Rx = [int(r) for r in x.R]
    caps0 = caps_written if caps_written is not None else (list(rmax) if isinstance(rmax, list) else None)      # the caps as the caller wrote them (the list object itself may be reused across calls)
    # numpy scalars are accepted for eps and for a scalar rmax
    npk = case.get('seed', 0) % 5 == 3
    eps_a = np.float64(eps) if npk else eps
    if case.get('seed', 0) % 6 == 4 and eps > 0:
        # a numpy float32 scalar is accepted too; the tolerance the library is given is then the float32 value
        eps_a = np.float32(eps)
        eps = float(eps_a)
        ctx.count('eps:numpy-float32')
    rmax_a = np.int64(rmax) if (npk and isinstance(rmax, int)) else rmax
    if rmax is None:
        y = ctx.lib('round', lambda t: t.round(eps_a), x)
    else:
        y = ctx.lib('round', lambda t: t.round(eps_a, rmax_a), x)
    bad, how = hooks.imm_diff(x, snap)
    ctx.count('operand_checked_bit_identical')
    if bad:
        ctx.viol(key + '/clause=operand-changed:' + '+'.join(bad), '%s: operand differs afterwards: %s %s' % (what, bad, how))
    if isinstance(y, Raised):
        ctx.viol(key + '/clause=raises:%s@%s' % (y.type, y.func), '%s raised %r' % (what, y))
        return None
    if not isinstance(y, torchtt.TT):
        ctx.viol(key + '/clause=returns-non-TT', '%s returned %s' % (what, type(y).__name__))
        return None
    if y is x or y.cores is x.cores:
        ctx.viol(key + '/clause=not-a-new-object', what)
    if bool(y.is_ttm) != bool(x.is_ttm) or list(y.N) != list(x.N) or (x.is_ttm and list(y.M) != list(x.M)):
        ctx.viol(key + '/clause=shape', '%s: result %s' % (what, hooks.signature(y)))
        return None
    try:
        dy = dn.D(y)
    except ValueError as e:
        ctx.viol(key + '/clause=ill-formed-result', '%s: %s' % (what, e))
        return None
    Ry = [int(r) for r in y.R]
    if any(a > b for a, b in zip(Ry, Rx)):
        ctx.viol(key + '/clause=rank-increased', '%s: R %s -> %s' % (what, Rx, Ry))
    caps = None
    if rmax is not None:
        caps = caps0 if caps0 is not None else [1] + [rmax] * (d - 1) + [1]
        if any(Ry[k] > caps[k] for k in range(d + 1)):
            ctx.viol(key + '/clause=rank>rmax', '%s: R=%s caps=%s' % (what, Ry, caps))
    binding = caps is not None and any(Ry[k] >= caps[k] for k in range(1, d))
    u = dn.ueps(dt)
    noise = 1e3 * u * srep
    eps_floor = 1e-3 if u > 1e-10 else 1e-8
    if eps >= eps_floor and d > 1 and nrm > 0 and noise < 0.1 * eps * nrm:
        ctx.count('exact_rank_clause_applied')
        if any(Ry[k + 1] > exact_ranks[k] for k in range(d - 1)):
            ctx.viol(key + '/clause=rank>exact-unfolding-rank', '%s: R=%s exact unfolding ranks %s' % (what, Ry, exact_ranks))
    err = dn.fro(dy - dx)
    allow = eps * nrm + noise
    if not binding:
        if allow > 0:
            ctx.metric('err_over_allowance', err / allow)
        if not err <= allow:
            ctx.viol(key + '/clause=error>eps', '%s: ||D(y)-D(x)||=%.6e > eps||x||=%.6e + roundoff %.3e, R %s -> %s' % (what, err, eps * nrm, noise, Rx, Ry))
    if any(c.dtype != dt for c in y.cores):
        ctx.viol(key + '/clause=dtype', '%s: %s' % (what, [str(c.dtype) for c in y.cores]))
    if any(a < b for a, b in zip(Ry, Rx)):
        ctx.count('rank_decreased_executions')
        ctx.nontrivial((case['gen'], case['kind'], tuple(case['N']), tuple(case['M'] or ()), case['dtype'], case['rmax'], tuple(Rx), tuple(Ry)))
    return tuple(Ry)


def prep(case, ctx, g):
    x = build(case, ctx, g)
    # overall magnitude of the operand (the bound is relative): 1e-15 and 1e25 for the double-precision dtypes, every 5th / 7th case
    mag = 1.0
    if x.cores[0].dtype in (torch.float64, torch.complex128) and case['gen'] == 'random':
        mag = 1e-15 if case['seed'] % 5 == 1 else (1e25 if case['seed'] % 7 == 2 else 1.0)
    if mag != 1.0:
        import torchtt
        x = torchtt.TT([c * mag if k_ == 0 else c for k_, c in enumerate(x.cores)])
    ctx.count('operand-magnitude:%g' % mag)
    dx = dn.D(x)
    d = len(x.N)
    modes = [m * n for m, n in zip(x.M, x.N)] if x.is_ttm else list(x.N)
    from .c01 import _unfolding_ranks
    dxi = dn.interleave_dense(dx, d) if x.is_ttm else dx
    u = dn.ueps(x.cores[0].dtype)
    exact = _unfolding_ranks(dxi, modes, 1e-5 if u > 1e-10 else 1e-10) if d > 1 and dn.fro(dx) > 0 else []
    ctx.count('kind:' + ('operator' if x.is_ttm else 'tensor'))
    if d == 1:
        ctx.count('order1')
    return x, dx, dn.s_rep(x), dn.fro(dx), exact


def run_case(case, ctx):
    g = gens.tgen(case['seed'])
    globals()['run_' + case['gen']](case, ctx, g)


def run_hist(case, ctx, g):
    from .. import hist
    hist.run(PROP, case, ctx)


def run_random(case, ctx, g):
    x, dx, srep, nrm, exact = prep(case, ctx, g)
    d = len(x.N)
    rr = random.Random(case['seed'] + 7)
    rmax = None
    if case['rmax'] == 'int':
        rmax = rr.choice((1, 2, 3, 100))
    elif case['rmax'] == 'list':
        rmax = [1] + [rr.choice((1, 2, 3, 50)) for _ in range(d - 1)] + [1]
    if rmax is not None:
        ctx.count('rmax:' + case['rmax'])
    if isinstance(rmax, list) and d > 1 and case['seed'] % 2 == 0:
        # the caller keeps ONE per-bond list and uses it for several tensors: first for a rank-1 tensor of the same shape, then for x
        import torchtt
        wanted = list(rmax)
        x1 = gens.make_tt(list(x.N), [1] * (d + 1), x.cores[0].dtype, 'gauss', g, M=list(x.M) if x.is_ttm else None)
        ctx.lib('round', lambda t: t.round(case['eps'], rmax), x1)
        ctx.count('rmax:list-reused-across-calls')
        observe(ctx, case, x, dx, srep, nrm, exact, case['eps'], rmax, 'random(reused rmax list, written as %s)' % wanted, caps_written=wanted)
        return
    if case['eps'] == 0:
        ctx.count('eps:zero')
    observe(ctx, case, x, dx, srep, nrm, exact, case['eps'], rmax, 'random')


def run_breakpoints(case, ctx, g):
    x, dx, srep, nrm, exact = prep(case, ctx, g)
    lo = case.get('lo_exp', -9)
    grid = [10 ** (lo + (-lo - 0.02) * j / (case['grid'] - 1)) for j in range(case['grid'])]
    ranks = [observe(ctx, case, x, dx, srep, nrm, exact, e, None, 'grid') for e in grid]
    for j in range(len(grid) - 1):
        if ranks[j] is None or ranks[j + 1] is None or ranks[j] == ranks[j + 1]:
            continue
        lo, hi, rlo = grid[j], grid[j + 1], ranks[j]
        for _ in range(70):
            mid = 0.5 * (lo + hi)
            if mid <= lo or mid >= hi:
                break
            r = observe(ctx, case, x, dx, srep, nrm, exact, mid, None, 'bisect')
            if r is None:
                break
            if r == rlo:
                lo = mid
            else:
                hi = mid
        ctx.count('breakpoints_bisected')
        for e in (math.nextafter(lo, 0.0), math.nextafter(hi, 1.0)):
            observe(ctx, case, x, dx, srep, nrm, exact, e, None, 'edge')
