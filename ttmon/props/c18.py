"""C18 - incompatible operands raise an error instead of returning a wrong tensor.

The negative-input table is generated: entry point x incompatibility class x small operand structures.  Anything
that has a valid dense counterpart under torch broadcasting is excluded by construction (validity is decided by
asking torch).  Outcome per call: returned something (hard violation) | raised a library error | raised
another exception (violation only for rows whose class is documented in that function's Raises: section).
"""
import random
import itertools
import torch

from .. import dense as dn
from .. import gens
from ..ctx import Raised, LIB_ERRORS

PROP = 'C18'
RULE = ('cases = generated table: every public entry point x incompatibility class {mode-size mismatch at each position, order mismatch, kind mismatch, '
        'non-TT / wrong-type argument, out-of-range or negative axis/index/mode, wrong index count, element-count mismatch, invalid permutation, invalid '
        'ranks/cores} x small operand structures (order<=3, sizes<=3); a candidate with a valid dense counterpart under torch broadcasting is excluded. '
        'Oracle: the call must raise; for documented classes the exception must be one of ShapeMismatch/RankMismatch/IncompatibleTypes/InvalidArguments/'
        'NotImplementedError. distinct = (row, structure); every row is non-trivial.')
ASSUMPTIONS = ['elementwise_divide and amen_mm document that they do not validate their inputs and are not in the table',
               'a multi-element dense tensor passed where a scalar is documented is checked only for "raises", not for the exception type']
REQUIRED_REACH = ['_tt_base:TT.__add__', '_tt_base:TT.__sub__', '_tt_base:TT.__mul__', '_tt_base:TT.__matmul__', '_tt_base:TT.__truediv__', '_tt_base:TT.__getitem__',
                  '_tt_base:TT.sum', '_tt_base:TT.set_core', '_extras:dot', '_extras:cat', '_extras:permute', '_extras:reshape', '_extras:bilinear_form', 'solvers:amen_solve',
                  '_amen:amen_mv', '_tt_base:TT.fast_matvec', '_tt_base:TT.__init__', '_tt_base:TT.mprod', '_tt_base:TT.to_qtt', '_tt_base:TT.qtt_to_tens', '_extras:pad']
REQUIRED_COUNTS = {'outcome:raised-library-error': 50}
LINE_FUNCS = ['TT.__init__', 'TT.set_core', 'TT.sum', 'cat', 'permute', 'dot', 'bilinear_form']

ROWS = {}


def row(name, documented):
    def deco(f):
        ROWS[name] = (documented, f)
        return f
    return deco


def small_structs(rng, orders=(1, 2, 3), sizes=(1, 2, 3), k=6):
    out = []
    for _ in range(k):
        d = rng.choice(orders)
        out.append(([rng.choice(sizes) for _ in range(d)], gens.rank_profile(rng, d, 'rand', 2)))
    return out


def broadcastable(a, b):
    try:
        torch.broadcast_shapes(tuple(a), tuple(b))
        return True
    except RuntimeError:
        return False


def cases(tier, seed):
    rng = random.Random('C18|%d' % seed)
    k = 10 if tier == 'quick' else 80
    cs = []
    # ---- binary elementwise ops: shape mismatch (tensor/tensor) --------------------------------------------------------
    for op in ('add', 'sub', 'mul', 'div', 'dot', 'hadamard'):
        for d in (1, 2, 3):
            for pos in range(d):
                for rep in range(k):
                    N1 = [rng.choice((2, 3, 4)) for _ in range(d)]
                    N2 = list(N1)
                    N2[pos] = rng.choice([n for n in (2, 3, 4, 5) if n != N1[pos]])
                    cs.append({'gen': 'neg', 'row': 'binop-shape-mismatch', 'op': op, 'N1': N1, 'N2': N2, 'cls': 'mode-size@%s' % ('first' if pos == 0 else ('last' if pos == d - 1 else 'middle'))})
        # order mismatch with the FIRST operand of lower order and non-broadcastable trailing sizes
        for rep in range(k):
            d2 = rng.choice((2, 3))
            N2 = [rng.choice((2, 3)) for _ in range(d2)]
            N1 = [rng.choice([n for n in (2, 3, 4) if n != N2[-1]])]
            cs.append({'gen': 'neg', 'row': 'binop-shape-mismatch', 'op': op, 'N1': N1, 'N2': N2, 'cls': 'order'})
        # different orders whose LEADING modes agree (a guard that zips the two shape lists stops at the shorter one)
        for rep in range(k):
            d1 = rng.choice((1, 2, 3))
            N1 = [rng.choice((2, 3, 4)) for _ in range(d1)]
            extra = [rng.choice((2, 3, 5)) for _ in range(rng.choice((1, 2)))]
            cs.append({'gen': 'neg', 'row': 'binop-shape-mismatch', 'op': op, 'N1': N1, 'N2': N1 + extra, 'cls': 'order-prefix/second-longer'})
            cs.append({'gen': 'neg', 'row': 'binop-shape-mismatch', 'op': op, 'N1': N1 + extra, 'N2': N1, 'cls': 'order-prefix/first-longer'})
    # operator/operator shape mismatch
    for op in ('add', 'sub', 'mul', 'div'):
        for d in (1, 2):
            for which in ('rows', 'cols'):
                for rep in range(k):
                    M1 = [rng.choice((2, 3)) for _ in range(d)]
                    N1 = [rng.choice((2, 3)) for _ in range(d)]
                    M2, N2 = list(M1), list(N1)
                    p = rng.randrange(d)
                    if which == 'rows':
                        M2[p] = M1[p] + rng.choice((1, 2))
                    else:
                        N2[p] = N1[p] + rng.choice((1, 2))
                    cs.append({'gen': 'neg', 'row': 'ttm-binop-shape-mismatch', 'op': op, 'M1': M1, 'N1': N1, 'M2': M2, 'N2': N2, 'cls': which})
    # kind mismatch
    for op in ('add', 'sub', 'mul', 'div', 'kron', 'pow', 'dot', 'fast_matvec_swapped', 'matmul_tt_tt', 'amen_mv_swapped', 'amen_solve_swapped', 'bilinear_kinds', 't_on_tensor', 'mprod_on_ttm', 'cat_ttm', 'cat_ttm_single'):
        for first_ttm in (False, True):
            for rep in range(k):
                d = rng.choice((1, 2, 3))
                N = [rng.choice((2, 3)) for _ in range(d)]
                cs.append({'gen': 'neg', 'row': 'kind-mismatch', 'op': op, 'N': N, 'first_ttm': first_ttm})
    # wrong-type second argument
    for op in ('add', 'sub', 'mul', 'div', 'rdiv', 'kron', 'pow', 'matmul', 'dot', 'fast_matvec', 'bilinear', 'amen_solve', 'amen_mv', 'diag', 'permute', 'save', 'ctor', 'zeros', 'ones', 'qtt_to_tens', 'cat_single', 'cat_member'):
        for bad in ('str', 'none', 'list', 'dense2', 'dict'):
            for ttm in (False, True):
                cs.append({'gen': 'neg', 'row': 'wrong-type', 'op': op, 'bad': bad, 'ttm': ttm, 'N': [2, 3]})
    # matmul shape mismatches
    for op in ('Ax', 'xA', 'AB', 'Adense', 'fast_matvec', 'amen_mv', 'amen_solve_rhs', 'amen_solve_nonsquare', 'bilinear_x', 'bilinear_y'):
        for d in (1, 2, 3):
            for rep in range(k):
                M = [rng.choice((2, 3)) for _ in range(d)]
                N = [rng.choice((2, 3)) for _ in range(d)]
                p = rng.randrange(d)
                cs.append({'gen': 'neg', 'row': 'matmul-shape-mismatch', 'op': op, 'M': M, 'N': N, 'pos': p, 'delta': rng.choice((1, 2))})
    # axis / index / mode out of range or negative
    for op in ('sum', 'sum_list', 'cat_dim', 'cat_dim_single', 'mprod_mode', 'set_core_k', 'getitem_int', 'apply_mask', 'dot_axis', 'permute_dims'):
        for d in (1, 2, 3):
            for bad in ('too-large', 'negative', 'way-too-large'):
                for rep in range(max(1, k // 2)):
                    N = [rng.choice((2, 3)) for _ in range(d)]
                    cs.append({'gen': 'neg', 'row': 'out-of-range', 'op': op, 'N': N, 'bad': bad, 'pos': rng.randrange(d)})
    # an axis / mode / position argument of the wrong TYPE (a float - integral or not -, a digit string, a 0-d float tensor): no dense counterpart accepts these either
    for op in ('sum', 'sum_list', 'cat_dim', 'cat_dim_single', 'mprod_mode', 'set_core_k', 'dot_axis'):
        for d in (2, 3):
            for bad in ('float', 'float-integral', 'neg-float', 'str', 'float-tensor'):
                N = [rng.choice((2, 3)) for _ in range(d)]
                cs.append({'gen': 'neg', 'row': 'wrong-type-axis', 'op': op, 'N': N, 'bad': bad, 'pos': rng.randrange(d)})
    # wrong index count / malformed index expressions
    for form in ('too-few', 'too-many', 'ellipsis-middle', 'two-ellipsis', 'bare-int-order>1', 'bare-slice-order>1', 'float-index', 'str-index', 'ttm-mixed-pair', 'ttm-ellipsis', 'ttm-odd-count', 'ttm-odd-count-surplus', 'ttm-too-many-pairs', 'mask-wrong-columns'):
        for d in (2, 3):
            for rep in range(max(1, k // 2)):
                N = [rng.choice((2, 3)) for _ in range(d)]
                cs.append({'gen': 'neg', 'row': 'bad-index', 'form': form, 'N': N})
    # element-count mismatch, invalid permutations, size mismatches in argument lists
    for op in ('reshape', 'reshape_ttm_rows', 'reshape_ttm_cols', 'qtt_to_tens_sizes', 'qtt_to_tens_prefix_short', 'qtt_to_tens_prefix_short_rank1', 'qtt_to_tens_prefix_one_mode_rank1', 'qtt_to_tens_long', 'reshape_prefix_short', 'reshape_prefix_short_rank1', 'reshape_prefix_long', 'reshape_ttm_split', 'reshape_ttm_split_rank1', 'reshape_ttm_split_lead11', 'to_qtt_size3', 'to_qtt_size6', 'to_qtt_ttm_nonsquare', 'to_qtt_ttm_size3', 'permute_dup', 'permute_short', 'permute_long',
               'mprod_size', 'mprod_lists', 'mprod_repeated_mode', 'cat_mode_mismatch_before', 'cat_mode_mismatch_after', 'cat_mode_mismatch_both', 'cat_order', 'pad_too_many', 'dot_axis_size', 'dot_axis_count', 'dot_b_longer', 'dot_axis_duplicate', 'dot_axis_duplicate_rank1',
               'ctor_shape_numel', 'ctor_shape_numel_divisor', 'ctor_shape_numel_divisor_numpy', 'ctor_shape_drops_a_mode', 'ctor_shape_numel_multiple', 'ctor_ttm_shape_numel', 'random_bad_R', 'random_surplus_R', 'randn_surplus_R', 'randn_short_R', 'randn_boundary_R', 'set_core_rank', 'set_core_dims', 'mask_dense'):
        for rep in range(k):
            d = rng.choice((2, 3))
            N = [rng.choice((2, 3)) for _ in range(d)]
            cs.append({'gen': 'neg', 'row': 'size-or-count-mismatch', 'op': op, 'N': N, 'pos': rng.randrange(d)})
    # constructor from invalid core lists
    for form in ('rank-chain', 'first-rank', 'last-rank', 'core-2d', 'core-5d', 'mixed-3d-4d', 'empty-list', 'unsupported-source'):
        for rep in range(max(1, k // 2)):
            d = rng.choice((2, 3))
            cs.append({'gen': 'neg', 'row': 'ctor-cores', 'form': form, 'N': [rng.choice((2, 3)) for _ in range(d)]})
    return cs


# ----------------------------------------------------------------------------------------------------------------------

def mk(N, g, ttm=False, M=None, R=None, dt=torch.float64):
    d = len(N)
    R = R or [1] + [2] * (d - 1) + [1]
    return gens.make_tt(N, R, dt, 'int', g, M=(M or N) if ttm else None)


def bad_value(kind):
    return {'str': 'abc', 'none': None, 'list': [1, 2], 'dense2': torch.ones(2, 2), 'dict': {'a': 1}}[kind]


DOC = True
ANY = False


def build(case, g):
    """-> (description, documented?, thunk) or None when the candidate is valid and therefore excluded."""
    import torchtt
    tt = torchtt
    r = case['row']
    if r == 'binop-shape-mismatch':
        if broadcastable(case['N1'], case['N2']):
            return None
        x, y = mk(case['N1'], g), mk(case['N2'], g)
        op = case['op']
        f = {'add': lambda: x + y, 'sub': lambda: x - y, 'mul': lambda: x * y, 'div': lambda: x / y, 'dot': lambda: tt.dot(x, y),
             'hadamard': lambda: tt.dmrg_hadamard(x, y)}[op]
        return ('%s %s vs %s' % (op, case['N1'], case['N2']), DOC if op != 'hadamard' else ANY, f, (x, y))
    if r == 'ttm-binop-shape-mismatch':
        if broadcastable(case['M1'] + case['N1'], case['M2'] + case['N2']):
            return None
        A, B = mk(case['N1'], g, True, case['M1']), mk(case['N2'], g, True, case['M2'])
        op = case['op']
        f = {'add': lambda: A + B, 'sub': lambda: A - B, 'mul': lambda: A * B, 'div': lambda: A / B}[op]
        return ('TTM %s %sx%s vs %sx%s' % (op, case['M1'], case['N1'], case['M2'], case['N2']), DOC, f, (A, B))
    if r == 'kind-mismatch':
        N, ft, op = case['N'], case['first_ttm'], case['op']
        x, A = mk(N, g), mk(N, g, True)
        a, b = (A, x) if ft else (x, A)
        table = {
            'add': (DOC, lambda: a + b), 'sub': (DOC, lambda: a - b), 'mul': (DOC, lambda: a * b), 'div': (DOC, lambda: a / b),
            'kron': (DOC, lambda: tt.kron(a, b)), 'pow': (DOC, lambda: a ** b), 'dot': (DOC, lambda: tt.dot(a, b)),
            'fast_matvec_swapped': (DOC, (lambda: x.fast_matvec(A)) if not ft else (lambda: A.fast_matvec(A))),
            'matmul_tt_tt': (DOC, lambda: x @ mk(N, g)),
            'amen_mv_swapped': (DOC, (lambda: tt.amen_mv(x, A)) if not ft else (lambda: tt.amen_mv(A, A))),
            'amen_solve_swapped': (DOC, (lambda: tt.solvers.amen_solve(x, A, use_cpp=False)) if not ft else (lambda: tt.solvers.amen_solve(A, A, use_cpp=False))),
            'bilinear_kinds': (DOC, (lambda: tt.bilinear_form(A, A, x)) if ft else (lambda: tt.bilinear_form(x, x, x))),
            't_on_tensor': (DOC, lambda: x.t()),
            'mprod_on_ttm': (DOC, lambda: A.mprod(torch.ones(2, N[0], dtype=torch.float64), 0)),
            'cat_ttm': (DOC, (lambda: tt.cat((A, A), 0)) if ft else (lambda: tt.cat((x, A), 0))),
            'cat_ttm_single': (DOC, lambda: tt.cat((A,), 0) if ft else tt.cat([A], 0)),       # one-element argument lists go through the same validation
        }
        doc, f = table[op]
        return ('%s kinds first_ttm=%s N=%s' % (op, ft, N), doc, f, (x, A))
    if r == 'wrong-type':
        N, op, bad, ttm = case['N'], case['op'], case['bad'], case['ttm']
        v = bad_value(bad)
        x = mk(N, g, ttm)
        A = mk(N, g, True)
        y = mk(N, g)
        # a multi-element dense tensor where a scalar is documented: only "raises" is required (see ASSUMPTIONS)
        scal_doc = DOC if bad != 'dense2' else ANY
        if op == 'matmul' and bad == 'dense2' and ttm:
            return None if list(v.shape[-len(N):]) == N else ('matmul dense mismatch', DOC, lambda: x @ v, (x,))
        if op == 'pow' and bad == 'none' or op == 'kron' and bad == 'none':
            return None     # None is a documented valid operand of kron / **
        table = {
            'add': (scal_doc if bad != 'str' else ANY, lambda: x + v), 'sub': (scal_doc if bad != 'str' else ANY, lambda: x - v), 'mul': (scal_doc, lambda: x * v),
            'div': (scal_doc, lambda: x / v), 'rdiv': (scal_doc if bad != 'str' else ANY, lambda: v / x),
            'kron': (DOC, lambda: tt.kron(x, v)), 'pow': (DOC, lambda: x ** v), 'matmul': (DOC, lambda: x @ v), 'dot': (DOC, lambda: tt.dot(y, v)),
            'fast_matvec': (DOC, lambda: A.fast_matvec(v)), 'bilinear': (DOC, lambda: tt.bilinear_form(y, A, v)),
            'amen_solve': (DOC, lambda: tt.solvers.amen_solve(A, v, use_cpp=False)), 'amen_mv': (DOC, lambda: tt.amen_mv(A, v)),
            'diag': (DOC, lambda: tt.diag(v)), 'permute': (DOC, lambda: tt.permute(v, [0, 1])), 'save': (DOC, lambda: tt.save(v, '/nonexistent-dir/never-written.TT')),
            'ctor': (DOC if bad in ('str', 'dict') else ANY, lambda: tt.TT(v) if bad != 'none' else (_ for _ in ()).throw(_Skip())),
            'zeros': (DOC if bad != 'list' else ANY, lambda: tt.zeros(v)), 'ones': (DOC if bad != 'list' else ANY, lambda: tt.ones(v)),
            'qtt_to_tens': (DOC if bad != 'list' else ANY, lambda: y.qtt_to_tens(v)),
            'cat_single': (ANY, lambda: tt.cat((v,), 0)), 'cat_member': (ANY, lambda: tt.cat((y, v), 0)),
        }
        if op == 'ctor' and bad in ('none', 'list', 'dense2'):
            return None     # None / dense tensors are documented valid sources; a list of ints is covered by ctor-cores
        if op in ('zeros', 'ones', 'qtt_to_tens') and bad == 'list':
            return None
        doc, f = table[op]
        return ('%s with %s operand (ttm=%s)' % (op, bad, ttm), doc, f, (x, A, y))
    if r == 'matmul-shape-mismatch':
        M, N, p, dl, op = case['M'], case['N'], case['pos'], case['delta'], case['op']
        N2 = list(N)
        N2[p] += dl
        M2 = list(M)
        M2[p] += dl
        A = mk(N, g, True, M)
        table = {
            'Ax': (DOC, lambda: A @ mk(N2, g)), 'xA': (DOC, lambda: mk(M2, g) @ A), 'AB': (DOC, lambda: A @ mk(N, g, True, N2)),
            'Adense': (DOC, lambda: A @ torch.ones([2] + N2, dtype=torch.float64)),
            'fast_matvec': (ANY, lambda: A.fast_matvec(mk(N2, g), use_cpp=False)), 'amen_mv': (DOC, lambda: tt.amen_mv(A, mk(N2, g))),
            'amen_solve_rhs': (DOC, lambda: tt.solvers.amen_solve(mk(N, g, True, N), mk(N2, g), use_cpp=False)),
            'amen_solve_nonsquare': (DOC, lambda: tt.solvers.amen_solve(mk(N, g, True, N2), mk(N, g), use_cpp=False)),
            'bilinear_x': (DOC, lambda: tt.bilinear_form(mk(M2, g), A, mk(N, g))), 'bilinear_y': (DOC, lambda: tt.bilinear_form(mk(M, g), A, mk(N2, g))),
        }
        doc, f = table[op]
        return ('%s M=%s N=%s mismatch at %d by %d' % (op, M, N, p, dl), doc, f, (A,))
    if r == 'wrong-type-axis':
        N, bad, op, p = case['N'], case['bad'], case['op'], case['pos']
        d = len(N)
        k = {'float': p + 0.5, 'float-integral': float(p), 'neg-float': -0.5, 'str': str(p), 'float-tensor': torch.tensor(p + 0.5)}[bad]
        x = mk(N, g)
        y = mk(N, g)
        b = mk([N[p]], g)
        table = {
            'sum': (ANY, lambda: x.sum(k)), 'sum_list': (ANY, lambda: x.sum([k, (p + 1) % d])),
            'cat_dim': (ANY, lambda: tt.cat((x, y), k)), 'cat_dim_single': (ANY, lambda: tt.cat((x,), k)),
            'mprod_mode': (ANY, lambda: x.mprod(torch.ones(2, N[p], dtype=torch.float64), k)),
            'set_core_k': (ANY, lambda: x.set_core(k, torch.ones(tuple(x.cores[p].shape), dtype=torch.float64))),
            'dot_axis': (ANY, lambda: tt.dot(x, b, [k])),
        }
        doc, f = table[op]
        return ('%s with %s %r as axis/position, N=%s' % (op, bad, k, N), doc, f, (x,))
    if r == 'out-of-range':
        N, bad, op, p = case['N'], case['bad'], case['op'], case['pos']
        d = len(N)
        k = {'too-large': d, 'negative': -1, 'way-too-large': d + 5}[bad]
        x = mk(N, g)
        y = mk(N, g)
        if op == 'getitem_int':
            k = {'too-large': N[p], 'negative': -N[p] - 1, 'way-too-large': N[p] + 7}[bad]
            idx = tuple(k if i == p else slice(None) for i in range(d))
            return ('x[%s] N=%s' % (idx, N), ANY, lambda: x[idx], (x,))
        if op == 'apply_mask':
            k = {'too-large': N[p], 'negative': -N[p] - 1, 'way-too-large': N[p] + 7}[bad]
            I = torch.zeros((2, d), dtype=torch.int64)
            I[1, p] = k
            return ('apply_mask index %d at column %d N=%s' % (k, p, N), ANY, lambda: x.apply_mask(I), (x,))
        if op == 'permute_dims':
            dims = list(range(d))
            dims[p] = k if bad != 'negative' else -1
            if bad == 'negative' and d == 1:
                dims = [-1]
            return ('permute dims=%s N=%s' % (dims, N), DOC, lambda: tt.permute(x, dims), (x,))
        if op == 'dot_axis':
            b = mk([N[0]], g)
            return ('dot axis=[%d] N=%s' % (k, N), ANY, lambda: tt.dot(x, b, [k]), (x, b))
        table = {
            'sum': (DOC, lambda: x.sum(k)), 'sum_list': (DOC, lambda: x.sum([0, k] if d > 1 else [k])),
            'cat_dim': (ANY, lambda: tt.cat((x, y), k)),
            'cat_dim_single': (ANY, lambda: tt.cat((x,), k)),
            'mprod_mode': (ANY, lambda: x.mprod(torch.ones(2, N[k % d], dtype=torch.float64), k)),
            'set_core_k': (DOC, lambda: x.set_core(k, torch.ones(tuple(x.cores[k % d].shape), dtype=torch.float64))),
        }
        doc, f = table[op]
        if op == 'mprod_mode' and bad == 'negative':
            return None   # python-style negative mode index selects the last core: a valid call
        return ('%s axis/index %d N=%s' % (op, k, N), doc, f, (x, y))
    if r == 'bad-index':
        N, form = case['N'], case['form']
        d = len(N)
        x = mk(N, g)
        A = mk(N, g, True)
        forms = {
            'too-few': (DOC, lambda: x[tuple([0] * (d - 1))]), 'too-many': (ANY, lambda: x[tuple([0] * (d + 1))]),
            'ellipsis-middle': (DOC, lambda: x[(0, Ellipsis, 0)]) if d >= 3 else None, 'two-ellipsis': (DOC, lambda: x[(Ellipsis, 0, Ellipsis)]),
            'bare-int-order>1': (DOC, lambda: x[0]), 'bare-slice-order>1': (DOC, lambda: x[0:1]), 'float-index': (DOC, lambda: x[tuple([0.5] + [0] * (d - 1))]),
            'str-index': (DOC, lambda: x['a']), 'ttm-mixed-pair': (DOC, lambda: A[tuple([0] * d + [slice(None)] * d)]),
            'ttm-ellipsis': (DOC, lambda: A[(Ellipsis,) + tuple([0] * d)]), 'ttm-odd-count': (ANY, lambda: A[tuple([0] * (2 * d - 1))]),
            'ttm-odd-count-surplus': (ANY, lambda: A[tuple([0] * (2 * d + 1))]),          # defect #46: the surplus index used to be ignored
            'ttm-too-many-pairs': (ANY, lambda: A[tuple([0] * (2 * d + 2))]),
            'mask-wrong-columns': (ANY, lambda: x.apply_mask(torch.zeros((2, d + 1), dtype=torch.int64))),
        }
        ent = forms[form]
        if ent is None:
            return None
        # x[(0,...,0)] with d-1 entries is invalid for the library (documented) - and also a *valid* dense index (it selects a sub-tensor).
        # The library documents "Slice size is invalid" for it, so it must raise; a returned scalar/TT would be a wrong tensor.
        return ('index form %s N=%s' % (form, N), ent[0], ent[1], (x, A))
    if r == 'size-or-count-mismatch':
        N, op, p = case['N'], case['op'], case['pos']
        d = len(N)
        x = mk(N, g)
        A = mk(N, g, True)
        n = dn.prod(N)
        Nb = list(N)
        Nb[p] += 1
        table = {
            'reshape': (DOC, lambda: tt.reshape(x, [n + 1])), 'reshape_ttm_rows': (DOC, lambda: tt.reshape(A, [(n + 1, n)])), 'reshape_ttm_cols': (DOC, lambda: tt.reshape(A, [(n, n + 1)])),
            'qtt_to_tens_sizes': (DOC, lambda: mk([2, 2, 2], g).qtt_to_tens([3, 3])),
            # element count too small, but the requested modes are matched by a PREFIX of the train (generic ranks, and rank-one bonds where a prefix is a valid train by itself)
            'qtt_to_tens_prefix_short': (DOC, lambda: mk([2, 2, 2, 2], g).qtt_to_tens([4, 2])),
            'qtt_to_tens_prefix_short_rank1': (DOC, lambda: (tt.ones([2, 2, 2, 2]) * 0.5).qtt_to_tens([4, 2])),
            'qtt_to_tens_prefix_one_mode_rank1': (DOC, lambda: (tt.ones([2, 2, 2, 2, 2]) * 0.5).qtt_to_tens([[8], [4], [2, 2], [4, 2, 2]][p % 4])),
            'qtt_to_tens_long': (DOC, lambda: mk([2, 2, 2], g).qtt_to_tens([4, 4])),
            'reshape_prefix_short': (DOC, lambda: tt.reshape(mk([2, 2, 2, 3], g), [4, 2])),
            'reshape_prefix_short_rank1': (DOC, lambda: tt.reshape(tt.ones([2, 2, 2, 3]) * 0.5, [[4, 2], [2, 2], [4], [2, 2, 2]][p % 4])),
            'reshape_prefix_long': (DOC, lambda: tt.reshape(tt.ones([2, 2, 3]) * 0.5, [2, 2, 3, 2])),
            # operators: the same TOTAL number of entries, but another split between rows and columns (4x4 -> 8x2 ...), on generic and on rank-one operators
            'reshape_ttm_split': (DOC, lambda: tt.reshape(mk([2, 2], g, True), [[(4, 2), (2, 1)], [(2, 4), (1, 2)], [(2, 2), (4, 1)]][p % 3])),
            'reshape_ttm_split_rank1': (DOC, lambda: tt.reshape(tt.eye([2, 2]) * 0.5, [[(4, 2), (2, 1)], [(2, 2), (4, 1)], [(2, 4), (1, 2)], [(8, 2)], [(2, 8)]][p % 5 if d >= 1 else 0])),
            'reshape_ttm_split_lead11': (DOC, lambda: tt.reshape(tt.rank1TT([torch.eye(2, dtype=torch.float64), torch.ones(3, 3, dtype=torch.float64)]), [[(1, 1), (12, 3)], [(1, 1), (3, 12)], [(1, 1), (4, 9)]][p % 3])),
            'to_qtt_size3': (DOC, lambda: mk([3] + N, g).to_qtt()), 'to_qtt_size6': (DOC, lambda: mk(N + [6], g).to_qtt()),
            'to_qtt_ttm_nonsquare': (DOC, lambda: mk([2, 4], g, True, [4, 2]).to_qtt()), 'to_qtt_ttm_size3': (DOC, lambda: mk([3, 4], g, True).to_qtt()),
            'permute_dup': (DOC, lambda: tt.permute(x, [0] * d)), 'permute_short': (DOC, lambda: tt.permute(x, list(range(d - 1)))), 'permute_long': (DOC, lambda: tt.permute(x, list(range(d + 1)))),
            'mprod_size': (DOC, lambda: x.mprod(torch.ones(2, N[p] + 1, dtype=torch.float64), p)),
            'mprod_lists': (DOC, lambda: x.mprod([torch.ones(2, N[0], dtype=torch.float64)], 0)),
            # the same mode twice: after the first matrix the mode has size 1, the second matrix (k x n, n > 1) no longer fits
            'mprod_repeated_mode': (DOC, lambda: x.mprod([torch.ones(1, N[p], dtype=torch.float64), torch.ones(3, N[p], dtype=torch.float64)], [p, p])),
            'cat_mode_mismatch_before': (DOC, (lambda: tt.cat((mk([2, 2, 2], g), mk([3, 2, 2], g)), 1))),
            'cat_mode_mismatch_after': (DOC, (lambda: tt.cat((mk([2, 2, 2], g), mk([2, 2, 3], g)), 1))),
            'cat_mode_mismatch_both': (DOC, (lambda: tt.cat((mk([2, 2, 2], g), mk([3, 2, 3], g)), 1))),
            'cat_order': (DOC, lambda: tt.cat((x, mk(N + [2], g)), 0)),
            'pad_too_many': (DOC, lambda: tt.pad(x, tuple((1, 1) for _ in range(d + 1)))),
            'dot_axis_size': (ANY, lambda: tt.dot(x, mk([N[p] + 1], g), [p])),
            'dot_axis_count': (ANY, lambda: tt.dot(x, mk([N[0]], g), [0, d - 1])),
            'dot_b_longer': (DOC, lambda: tt.dot(x, mk(N + [2], g), list(range(d)))),
            # one mode named twice (b has two modes of that size): no dense contraction does that (defect #44: a rank-one b used to pass the guard)
            'dot_axis_duplicate': (ANY, lambda: tt.dot(x, mk([N[p], N[p]], g), [p, p])),
            'dot_axis_duplicate_rank1': (ANY, lambda: tt.dot(x, mk([N[p], N[p]], g, R=[1, 1, 1]), [p, p])),
            'ctor_shape_numel': (ANY, lambda: tt.TT(torch.ones(N, dtype=torch.float64), shape=Nb)),
            # requested shapes whose element count DIVIDES (or is a multiple of) the array's: a reshape with -1 somewhere inside would absorb the factor silently
            'ctor_shape_numel_divisor': (ANY, lambda: tt.TT(torch.arange(float(dn.prod(N) * 2), dtype=torch.float64).reshape(N + [2]) + 1.0, shape=list(N))),
            'ctor_shape_numel_divisor_numpy': (ANY, lambda: tt.TT((torch.arange(float(dn.prod(N) * 3), dtype=torch.float64).reshape([3] + N) + 1.0).numpy(), shape=list(N))),
            'ctor_shape_drops_a_mode': (ANY, lambda: tt.TT(torch.arange(float(dn.prod(N) * 2), dtype=torch.float64).reshape(N + [2]) + 1.0, shape=list(N[:-1]) + [2])),
            'ctor_shape_numel_multiple': (ANY, lambda: tt.TT(torch.arange(float(dn.prod(N)), dtype=torch.float64).reshape(N) + 1.0, shape=list(N) + [2])),
            'ctor_ttm_shape_numel': (ANY, lambda: tt.TT(torch.ones(N + N, dtype=torch.float64), shape=[(a, b) for a, b in zip(Nb, N)])),
            'random_bad_R': (DOC, lambda: tt.random(N, [1] * d)),
            'random_surplus_R': (ANY, lambda: tt.random(N, [1] + [2] * (d - 1) + [1, 7])),
            'randn_surplus_R': (ANY, lambda: tt.randn(N, [1] + [2] * (d - 1) + [1, 7])),        # defect #47: the surplus entry used to be ignored
            'randn_short_R': (ANY, lambda: tt.randn(N, [1] * d)),
            'randn_boundary_R': (ANY, lambda: tt.randn(N, [2] + [2] * (d - 1) + [1])),
            'set_core_rank': (DOC, lambda: x.set_core(p, torch.ones((x.R[p] + 1, N[p], x.R[p + 1]), dtype=torch.float64))),
            'set_core_dims': (DOC, lambda: x.set_core(p, torch.ones((x.R[p], N[p], 1, x.R[p + 1]), dtype=torch.float64))),
            'mask_dense': (ANY, lambda: x.apply_mask(torch.zeros((2, d), dtype=torch.float64))),
        }
        doc, f = table[op]
        return ('%s N=%s pos=%d' % (op, N, p), doc, f, (x, A))
    if r == 'ctor-cores':
        N, form = case['N'], case['form']
        d = len(N)
        R = [1] + [2] * (d - 1) + [1]
        cores = gens.make_cores(N, R, torch.float64, 'int', g)
        if form == 'rank-chain':
            cores[1] = torch.ones((3, N[1], R[2]), dtype=torch.float64)
            doc = DOC
        elif form == 'first-rank':
            cores[0] = torch.ones((2, N[0], R[1]), dtype=torch.float64)
            doc = DOC
        elif form == 'last-rank':
            cores[-1] = torch.ones((R[-2], N[-1], 2), dtype=torch.float64)
            doc = DOC
        elif form == 'core-2d':
            cores[0] = torch.ones((1, R[1]), dtype=torch.float64)
            doc = DOC
        elif form == 'core-5d':
            cores[0] = torch.ones((1, N[0], 1, 1, R[1]), dtype=torch.float64)
            doc = DOC
        elif form == 'mixed-3d-4d':
            cores[0] = torch.ones((1, N[0], 2, R[1]), dtype=torch.float64)
            doc = DOC
        elif form == 'empty-list':
            cores = []
            doc = ANY
        else:
            return ('TT(source of unsupported type)', DOC, lambda: tt.TT(3.5), ())
        return ('TT(cores) with %s N=%s' % (form, N), doc, lambda: tt.TT(cores), ())
    raise AssertionError('unknown row ' + r)


class _Skip(Exception):
    pass


def run_case(case, ctx):
    import torchtt
    g = gens.tgen(case['seed'])
    b = build(case, g)
    if b is None:
        ctx.count('excluded:valid-under-torch-semantics')
        return
    desc, documented, thunk, operands = b
    sub = case.get('op') or case.get('form')
    cls = case.get('cls') or case.get('bad') or ''
    key = 'neg/%s/%s%s' % (case['row'], sub, ('/' + cls) if cls else '')
    out = ctx.lib('neg:%s:%s' % (case['row'], sub), lambda *ops: thunk(), *operands)
    if isinstance(out, Raised):
        if out.type in LIB_ERRORS:
            ctx.count('outcome:raised-library-error')
        elif documented:
            ctx.count('outcome:raised-other-on-documented-row')
            ctx.viol(key + '/clause=undocumented-exception:%s' % out.type, '%s: documented incompatibility raised %s at %s (%s) instead of a library error' % (desc, out.type, out.where, out.msg))
        else:
            ctx.count('outcome:raised-other')
    else:
        kind = 'TT' if isinstance(out, torchtt.TT) else ('tensor' if torch.is_tensor(out) else type(out).__name__)
        ctx.count('outcome:returned')
        from ..hooks import signature
        ctx.viol(key + '/clause=returned:%s' % kind, '%s: returned %s instead of raising' % (desc, signature(out)))
    ctx.nontrivial((case['row'], sub, cls, str({k: v for k, v in case.items() if k not in ('seed', 'gen')})))
