"""C17 - the compiled backend obeys the same contracts as the Python implementation.

Behavioural monitor: the same (A,b,...) / (A,x,...) goes through use_cpp=True and use_cpp=False in one worker with the same
per-execution seed; both must meet the C12 / C11 bounds and agree with each other.  Workers are subprocesses (the freshly
built extension has to be importable before torchtt is imported) with a pre-call journal, so a SIGSEGV/SIGABRT inside the
extension is a violation whose witness is the journaled case.  Sanitizer monitor (both tiers, a strided subset of the workload): it is repeated on an
ASan+UBSan build of cpp/ and report blocks with a frame inside torchttcpp.so are violations.
"""
import os
import re
import sys
import glob
import json
import math
import random
import shutil
import subprocess
import torch

from .. import dense as dn
from .. import gens
from .. import hooks
from ..ctx import Raised

PROP = 'C17'
SPAWN = 'subprocess'
HERE = os.path.dirname(os.path.dirname(os.path.dirname(os.path.abspath(__file__))))
C_EPS = 10.0
RULE = ('cases = amen_solve on the C12 system classes (certified cond_2<=1e3; SPD / diagonally dominant / Laplacian; order 1..5; preconditioner None,c,r; max_full 500,0; with and '
        'without initial guess) and fast_matvec on the C11 operand classes (order 1..6, rectangular, with and without initial guess), each executed with use_cpp=True on the extension '
        'built from the CURRENT cpp/ sources and with use_cpp=False, same seed. Oracle: each backend meets its accuracy contract (residual <= 10 eps ||b||; product error <= 10 eps ||ref||) '
        'and ||x_cpp - x_py|| <= 20 eps kappa ||x_py||; calls into torchttcpp are counted by wrapping the module functions (a configuration in which the C++ path did not run is not '
        'counted); a worker killed by a signal is a violation attributed to the journaled case. A strided subset of the workload (every 5th case in quick, every 11th in thorough) is repeated under an ASan+UBSan build and '
        'sanitizer report blocks with a frame in torchttcpp.so are violations. distinct = (routine, structure, configuration, eps decade, seed index); non-trivial = C++ path observed.')
ASSUMPTIONS = ['built with -std=c++20 instead of setup.py\'s -std=c++17 (PyTorch 2.14 headers require it); otherwise the same sources and libraries',
               'sanitizers see only torchttcpp.so: libtorch, OpenBLAS and the BLAS integer-width convention in cpp/BLAS.h are outside their view',
               'MSan/TSan not applicable (uninstrumented libtorch; no threads)',
               'explicit sweep budgets nswp=1,2 are outside the quantified input classes: only acceptance/shape/finiteness are judged there, plus a differential clause read off the wording '
               '"the same contracts as with use_cpp=False": when the Python backend meets the C11 bound within that budget on the same input, options and seed, the C++ port must meet twice that bound']
REQUIRED_COUNTS = {'cpp_calls:amen_solve': 20, 'cpp_calls:dmrg_mv': 20, 'executions': 60, 'exhausted_budget_executions[cpp]': 5}
REQUIRED_REACH = ['solvers:amen_solve', '_dmrg:dmrg_matvec']
CASE_TIMEOUT = {'quick': 300, 'thorough': 600}
RUN_TIMEOUT = {'quick': 1500, 'thorough': 7200}
MAX_TIMEOUT_FRACTION = 0.0
_state = {}


def prepare(tier):
    from .. import cppbuild
    import concurrent.futures
    info = {}
    # both builds in parallel (threads only wait for g++)
    with concurrent.futures.ThreadPoolExecutor(2) as ex:
        fb, fa = ex.submit(cppbuild.build, 'plain'), ex.submit(cppbuild.build, 'asan')
        b, a = fb.result(), fa.result()
    info['plain'] = {k: v for k, v in b.items() if k != 'path'}
    if 'error' in b:
        return {'inconclusive': 'cannot build cpp/cpp_ext.cpp: ' + b['error'][:300]}
    os.environ['TTMON_CPP_DIR'] = b['path']
    _state['plain'] = b['path']
    info['asan'] = {k: v for k, v in a.items() if k != 'path'}
    if 'error' in a:
        info['sanitizer'] = {'status': 'not run: build failed', 'error': a['error'][:300]}
    else:
        info['sanitizer'] = run_sanitizer_pass(a['path'], tier, stride=5 if tier == 'quick' else 11)
    return info


def worker_env(tier):
    return {'TTMON_CPP_DIR': _state.get('plain', os.environ.get('TTMON_CPP_DIR', ''))}


def pre_import():
    d = os.environ.get('TTMON_CPP_DIR')
    if d:
        sys.path.insert(0, d)


def crash_key(case, desc):
    return 'cpp-backend/%s/order%s/worker-killed-by-%s' % (case['routine'], '1' if len(case['N']) == 1 else '>=2', desc.replace(' ', ''))


def cases(tier, seed):
    rng = random.Random('C17|%d' % seed)
    T = tier == 'thorough'
    cs = []
    nstruct = 90 if not T else 700
    k = 2 if not T else 4
    for i in range(nstruct):
        cls = ['spd', 'dd', 'lap', 'kron', 'spd', 'dd', 'lap'][i % 7]
        d = rng.choice([1, 2, 2, 3, 3, 4, 5])
        while True:
            N = [rng.randint(2, 12 if d <= 3 else 5) for _ in range(d)]
            if dn.prod(N) <= 600:
                break
        for pi, prec in enumerate((None, 'c', 'r')):
            if not T and (i // 2 + pi) % 2:
                continue
            for j in range(k if prec is None else 2):
                cs.append({'gen': 'solve', 'routine': 'amen_solve', 'cls': cls, 'kfac': ['spd', 'dd'][i % 2], 'N': N, 'RB': gens.rank_profile(rng, d, 'rand', 2 if cls == 'spd' else 3), 'Rb': gens.rank_profile(rng, d, 'rand', 3),
                           'rhs': ['random', 'image'][i % 2], 'cfac': 10 ** rng.uniform(-0.3, 1.5), 'shift': [0.0, 0.1][(i // 3) % 2], 'eps': 10 ** rng.uniform(-9, -3), 'prec': prec,
                           'max_full': [0, 500][j % 2] if prec is not None else [500, 0][(i + j) % 2], 'x0': ['none', 'user', 'none', 'user', 'zero', 'zerocore'][(i // 3 + j + pi) % 6], 'vseed': rng.randrange(2 ** 40), 'sidx': j})
    # right-hand sides orthogonal to the default all-ones guess along one mode (rank one, one zero-mean factor)
    for i in range(12 if not T else 80):
        d = rng.choice([2, 3, 3, 4])
        N = [rng.randint(3, 7) for _ in range(d)]
        cs.append({'gen': 'solve', 'routine': 'amen_solve', 'cls': ['dd', 'lap', 'spd'][i % 3], 'N': N, 'RB': gens.rank_profile(rng, d, 'rand', 2), 'Rb': [1] * (d + 1), 'rhs': 'zero-mean-factor',
                   'zm_mode': [d - 1, 0, d // 2][(i // 3) % 3], 'cfac': 10 ** rng.uniform(-0.3, 1.5), 'shift': 0.0, 'eps': 10 ** rng.uniform(-9, -4), 'prec': [None, 'c', 'r'][(i // 2) % 3],
                   'max_full': [0, 500][i % 2], 'x0': 'none', 'vseed': rng.randrange(2 ** 40), 'sidx': 0})
    # ALMOST symmetric operators (diffusion + weak upwind convection, relative asymmetry 1e-3 .. 1e-7) at tight eps, as in C12
    for i in range(12 if not T else 80):
        d = rng.choice([2, 3])
        cs.append({'gen': 'solve', 'routine': 'amen_solve', 'cls': 'cd', 'N': [rng.randint(4, 9) for _ in range(d)], 'RB': [1] * (d + 1), 'Rb': [1] + [rng.randint(1, 3) for _ in range(d - 1)] + [1],
                   'rhs': ['random', 'image'][i % 2], 'cfac': 1.0, 'conv': [1e-5, 1e-6, 1e-7, 1e-3][i % 4], 'shift': [0.0, 0.1][(i // 4) % 2], 'eps': [1e-10, 1e-9][(i // 2) % 2],
                   'prec': [None, 'c', None, 'r'][(i // 3) % 4], 'max_full': [500, 500, 0][i % 3], 'x0': ['none', 'user'][(i // 6) % 2], 'vseed': rng.randrange(2 ** 40), 'sidx': 0})
    # directed (defects #43 / #48): tiny right-hand sides with preconditioned GMRES local solves on small systems, as in C12
    for i in range(8 if not T else 40):
        cs.append({'gen': 'solve', 'routine': 'amen_solve', 'cls': ['lap', 'spd'][i % 2], 'kfac': 'spd', 'N': [[3, 4, 2, 2], [2, 2, 5, 2], [4, 3, 3], [2, 5, 2, 3]][i % 4], 'RB': [[1, 4, 3, 2, 1], [1, 1, 1, 1, 1], [1, 3, 2, 1], [1, 2, 3, 2, 1]][i % 4],
                   'Rb': [[1, 2, 4, 3, 1], [1, 2, 1, 2, 1], [1, 3, 3, 1], [1, 2, 2, 2, 1]][i % 4], 'rhs': 'random', 'cfac': 2.7, 'shift': 0.1, 'band': -1, 'eps': [2.3e-7, 6.6e-7, 1e-9, 1e-5][i % 4],
                   'vseed': 328722089524 + 1000 * i, 'prec': ['c', 'r'][i % 2], 'max_full': 0, 'x0': 'none', 'sidx': 0, 'bscale': [1e-24, 1e-22, 1e-30, 1e-26][i % 4]})
    # the witness of defect #48 itself (SPD 2x2x5x2, right-hand side of norm 1.9e-24, preconditioner 'c' / 'r', GMRES local solves) and two neighbours
    for i in range(3):
        cs.append(dict({'gen': 'solve', 'routine': 'amen_solve', 'cls': 'spd', 'kfac': 'spd', 'N': [2, 2, 5, 2], 'RB': [1, 1, 1, 1, 1], 'Rb': [1, 2, 1, 2, 1], 'rhs': 'random', 'cfac': 2.7320038600794945, 'shift': 0.1, 'eps': 6.611498377516512e-07, 'prec': 'c', 'max_full': 0, 'x0': 'none', 'vseed': 328722089524, 'sidx': 0}, prec=['c', 'r', 'c'][i], eps=[6.611498377516512e-07, 6.6e-7, 1e-8][i], sidx=0))
    for N in ([12, 12, 12], [8, 12, 12]):
        for prec in (None, 'c'):
            cs.append({'gen': 'solve', 'routine': 'amen_solve', 'cls': 'lap', 'N': N, 'RB': [1] * 4, 'Rb': [1, 2, 2, 1], 'rhs': 'random', 'cfac': 1.0, 'shift': 0.0, 'eps': 1e-10, 'prec': prec,
                       'max_full': 0, 'x0': 'none', 'vseed': 999, 'sidx': 0})
    for i in range(140 if not T else 1000):
        d = rng.choice([1, 2, 2, 3, 3, 4, 5, 6])
        while True:
            M = [rng.randint(1, 6) for _ in range(d)]
            N = [rng.randint(1, 6) for _ in range(d)]
            if dn.prod(M) * dn.prod(N) <= 2e5:
                break
        for j in range(k):
            cs.append({'gen': 'matvec', 'routine': 'fast_matvec', 'M': M, 'N': N, 'RA': gens.rank_profile(rng, d, 'rand', 4), 'RB': gens.rank_profile(rng, d, 'rand', 4), 'RG': gens.rank_profile(rng, d, 'rand', 4),
                       'eps': 10 ** rng.uniform(-11, -2), 'guess': ['none', 'user'][(i + j) % 2], 'vals': ['gauss', 'decay'][i % 2], 'vseed': rng.randrange(2 ** 40), 'sidx': j,
                       'dtype': 'c128' if i % 3 == 2 else 'f64', 'scale': [1.0, 1.0, 1e-8, 1e4, 1e-15][(i // 2) % 5]})
    # tall supercores with a long spectrum at tight eps: rank-4 operands whose bond weights span twelve orders (deep4), larger modes in front of a small last mode
    for i in range(10 if not T else 60):
        M = [[6, 6, 4], [5, 6, 6, 4], [6, 6, 2], [6, 6, 6, 3], [6, 5, 1]][i % 5]
        for j in range(k):
            cs.append({'gen': 'matvec', 'routine': 'fast_matvec', 'M': M, 'N': list(M), 'RA': [1] + [4] * (len(M) - 1) + [1], 'RB': [1] + [4] * (len(M) - 1) + [1], 'RG': [1] + [2] * (len(M) - 1) + [1],
                       'eps': [1e-12, 1e-11][(i // 5) % 2], 'guess': ['none', 'user'][(i + j) % 2], 'vals': 'deep4', 'vseed': rng.randrange(2 ** 40), 'sidx': j, 'dtype': ['f64', 'c128'][i % 2], 'scale': 1.0})
    # exhausted sweep budgets (nswp=1,2): the final-sweep branch of the C++ DMRG loop is reached only here. The accuracy/agreement contracts are about the default budget,
    # so only acceptance, shape, well-formedness and finiteness are judged (and the sanitizer pass sees this branch); the two errors are recorded as observations
    for i in range(12 if not T else 80):
        d = rng.choice([2, 3, 4])
        cs.append({'gen': 'matvec', 'routine': 'fast_matvec', 'M': [rng.randint(1, 5) for _ in range(d)], 'N': [rng.randint(1, 5) for _ in range(d)], 'RA': gens.rank_profile(rng, d, 'rand', 4),
                   'RB': gens.rank_profile(rng, d, 'rand', 4), 'RG': gens.rank_profile(rng, d, 'rand', 4), 'eps': 10 ** rng.uniform(-10, -3), 'guess': ['none', 'user'][i % 2], 'vals': 'gauss',
                   'vseed': rng.randrange(2 ** 40), 'sidx': 0, 'dtype': 'c128' if i % 3 == 2 else 'f64', 'scale': 1.0, 'nswp': 1 + (i // 2) % 2})
    return cs


class CppCounter:
    def __init__(self):
        import torchttcpp
        self.mod = torchttcpp
        self.n = {'amen_solve': 0, 'dmrg_mv': 0}
        self.orig = {k: getattr(torchttcpp, k) for k in self.n}
        for k in self.n:
            setattr(torchttcpp, k, self._wrap(k))

    def _wrap(self, k):
        def f(*a, **kw):
            self.n[k] += 1
            return self.orig[k](*a, **kw)
        return f


def counter():
    if 'cnt' not in _state:
        try:
            _state['cnt'] = CppCounter()
        except ImportError:
            _state['cnt'] = None
    return _state['cnt']


def run_case(case, ctx):
    import torchtt
    cnt = counter()
    if cnt is None or not torchtt.cpp_enabled():
        ctx.count('extension_not_importable')
        return
    globals()['run_' + case['gen']](case, ctx, cnt)


def run_solve(case, ctx, cnt):
    import torchtt
    from . import c12
    g = gens.tgen(case['vseed'])
    A, b, Am, cond = c12.build_system(case, ctx, g)
    N = case['N']
    n = dn.prod(N)
    if not cond <= c12.COND_MAX:
        ctx.count('rejected:cond>1e3')
        return
    eps = case['eps']
    x0 = None
    if case['x0'] in ('zero', 'zerocore'):
        rr = random.Random(case['vseed'] + 6)
        x0c = gens.make_cores(N, [1] + [rr.randint(1, 3) for _ in N[1:]] + [1], torch.float64, 'gauss', g)
        j0 = rr.randrange(len(N))
        x0c = [c * 0 if (case['x0'] == 'zero' or k == j0) else c for k, c in enumerate(x0c)]
        x0 = torchtt.TT(x0c)
        ctx.count('x0:degenerate')
    if case['x0'] == 'user':
        rr = random.Random(case['vseed'] + 5)
        x0 = gens.make_tt(N, [1] + [rr.randint(1, 3) for _ in N[1:]] + [1], torch.float64, 'gauss', g)
    bvec = dn.D(b).reshape(n)
    nb = float(torch.linalg.norm(bvec))
    conf = 'prec=%s/max_full=%d' % (case['prec'], case['max_full'])
    oc = 'order1' if len(N) == 1 else 'order>=2'
    key = 'amen_solve/%s/%s' % (oc, conf)
    what = 'amen_solve %s N=%s cond2=%.1f eps=%.2e %s x0=%s seed-index %d' % (case['cls'], N, cond, eps, conf, case['x0'], case['sidx'])
    ctx.count('executions')
    res = {}
    for backend, use_cpp in (('cpp', True), ('python', False)):
        torch.manual_seed(case['seed'] % (2 ** 31))
        before = cnt.n['amen_solve']
        kw = dict(eps=eps, max_full=case['max_full'], preconditioner=case['prec'], use_cpp=use_cpp)
        if x0 is not None:
            x = ctx.lib('amen_solve[%s](x0)' % backend, lambda a, c, z: torchtt.solvers.amen_solve(a, c, x0=z, **kw), A, b, x0)
        else:
            x = ctx.lib('amen_solve[%s]' % backend, lambda a, c: torchtt.solvers.amen_solve(a, c, **kw), A, b)
        ran_cpp = cnt.n['amen_solve'] - before
        if use_cpp:
            ctx.count('cpp_calls:amen_solve', ran_cpp)
        bkey = key + '/backend=' + backend
        if isinstance(x, Raised):
            ctx.viol(bkey + '/clause=raises:%s@%s' % (x.type, x.func), '%s [%s] raised %r' % (what, backend, x))
            continue
        if not isinstance(x, torchtt.TT) or x.is_ttm or [int(v) for v in x.N] != list(N):
            ctx.viol(bkey + '/clause=shape', '%s [%s]: result %s' % (what, backend, hooks.signature(x)))
            continue
        try:
            xv = dn.D(x).reshape(n)
        except ValueError as e:
            ctx.viol(bkey + '/clause=ill-formed-result', '%s [%s]: %s' % (what, backend, e))
            continue
        r = float(torch.linalg.norm(Am @ xv - bvec))
        ratio = r / (eps * nb) if nb > 0 else 0.0
        ctx.metric('residual_over_eps/' + backend, ratio)
        if not ratio <= C_EPS:
            ctx.viol(bkey + '/clause=residual>10eps', '%s [%s]: ||Ax-b||/||b|| = %.3g * eps; ranks %s' % (what, backend, ratio, [int(v) for v in x.R]))
        res[backend] = (xv, ran_cpp)
    if 'cpp' in res and 'python' in res:
        dx = float(torch.linalg.norm(res['cpp'][0] - res['python'][0]))
        nx = float(torch.linalg.norm(res['python'][0]))
        rel = dx / (eps * cond * nx) if nx > 0 else 0.0
        ctx.metric('backend_difference_over_eps_kappa', rel)
        if not rel <= 20.0:
            ctx.viol(key + '/clause=backends-disagree', '%s: ||x_cpp - x_py|| = %.3g * eps*kappa*||x_py||' % (what, rel))
        if res['cpp'][1] > 0:
            ctx.nontrivial(('amen_solve', case['cls'], tuple(N), conf, case['x0'], int(math.log10(eps)), case['sidx']))
        else:
            ctx.count('cpp_path_not_observed')


def run_matvec(case, ctx, cnt):
    import torchtt
    from . import c11
    g = gens.tgen(case['vseed'])
    case = dict(case)
    case.setdefault('dtype', 'f64')
    M, N, eps = case['M'], case['N'], case['eps']
    d = len(M)
    A, x = c11.mk(case, g, N, case['RA'], M=M), c11.mk(case, g, N, case['RB'])
    ref = torch.tensordot(dn.D(A), dn.D(x), dims=d)
    guess = c11.mk(case, g, M, case['RG'], vals='gauss') if case['guess'] == 'user' else None
    srep = dn.s_rep(A) * dn.s_rep(x)
    nref = dn.fro(ref)
    oc = 'order1' if d == 1 else 'order>=2'
    key = 'fast_matvec/%s/guess=%s' % (oc, case['guess'])
    what = 'fast_matvec M=%s N=%s RA=%s RB=%s eps=%.2e guess=%s seed-index %d' % (M, N, case['RA'], case['RB'], eps, case['guess'], case['sidx'])
    ctx.count('executions')
    res = {}
    for backend, use_cpp in (('cpp', True), ('python', False)):
        torch.manual_seed(case['seed'] % (2 ** 31))
        before = cnt.n['dmrg_mv']
        kwn = {'nswp': case['nswp']} if case.get('nswp') else {}
        if guess is not None:
            y = ctx.lib('fast_matvec[%s](initial)' % backend, lambda a, b, c: a.fast_matvec(b, eps=eps, initial=c, use_cpp=use_cpp, **kwn), A, x, guess)
        else:
            y = ctx.lib('fast_matvec[%s]' % backend, lambda a, b: a.fast_matvec(b, eps=eps, use_cpp=use_cpp, **kwn), A, x)
        ran_cpp = cnt.n['dmrg_mv'] - before
        if use_cpp:
            ctx.count('cpp_calls:dmrg_mv', ran_cpp)
        bkey = key + '/backend=' + backend
        if isinstance(y, Raised):
            ctx.viol(bkey + '/clause=raises:%s@%s' % (y.type, y.func), '%s [%s] raised %r' % (what, backend, y))
            continue
        if not isinstance(y, torchtt.TT) or y.is_ttm or [int(v) for v in y.N] != list(M):
            ctx.viol(bkey + '/clause=shape', '%s [%s]: result %s' % (what, backend, hooks.signature(y)))
            continue
        try:
            dy = dn.D(y)
        except ValueError as e:
            ctx.viol(bkey + '/clause=ill-formed-result', '%s [%s]: %s' % (what, backend, e))
            continue
        err = dn.fro(dy - ref)
        if case.get('nswp'):
            ctx.count('exhausted_budget_executions[%s]' % backend)
            if not bool(torch.isfinite(dy.abs().sum())):
                ctx.viol(bkey + '/clause=non-finite(nswp=%d)' % case['nswp'], '%s [%s] nswp=%d: non-finite result' % (what, backend, case['nswp']))
            if nref > 0:
                ctx.metric('exhausted_budget_err_over_norm/%s/nswp=%d' % (backend, case['nswp']), err / nref)
            res[backend] = (dy, ran_cpp)
            continue
        allow = C_EPS * eps * nref + 1e3 * 2.3e-16 * srep
        ctx.count('dtype:' + case['dtype'])
        ctx.count('magnitude:%g' % case.get('scale', 1.0))
        if nref > 0:
            ctx.metric('err_over_eps_norm/' + backend, err / (eps * nref) if eps >= 1e-9 else 0.0)
        if not err <= allow:
            ctx.viol(bkey + '/clause=error>10eps', '%s [%s]: err = %.3g * eps*||ref||; ranks %s' % (what, backend, err / (eps * nref) if nref else float('inf'), [int(v) for v in y.R]))
        res[backend] = (dy, ran_cpp)
    if case.get('nswp'):
        if 'cpp' in res and 'python' in res and nref > 0:
            ctx.metric('exhausted_budget_backend_difference_over_norm/nswp=%d' % case['nswp'], dn.fro(res['cpp'][0] - res['python'][0]) / nref)
            if res['cpp'][1] > 0:
                ctx.nontrivial(('fast_matvec', 'nswp', case['nswp'], tuple(M), tuple(N), case['guess'], case['dtype']))
            # differential clause: where the Python backend met the C11 bound within this budget, the port is held to the same bound on the same input and seed
            allow = C_EPS * eps * nref + 1e3 * 2.3e-16 * srep
            epy, ecpp = dn.fro(res['python'][0] - ref), dn.fro(res['cpp'][0] - ref)
            if epy <= allow:
                ctx.count('exhausted_budget_differential_checks')
                if not ecpp <= 2 * allow:
                    ctx.viol(key + '/clause=cpp-misses-bound-python-meets(nswp=%d)' % case['nswp'], '%s nswp=%d: python err %.3g, cpp err %.3g, bound %.3g (all absolute; ||ref||=%.3g)' % (
                        what, case['nswp'], epy, ecpp, allow, nref))
        return
    if 'cpp' in res and 'python' in res:
        diff = dn.fro(res['cpp'][0] - res['python'][0])
        if not diff <= 20 * eps * nref + 2e3 * 2.3e-16 * srep:
            ctx.viol(key + '/clause=backends-disagree', '%s: ||y_cpp - y_py|| = %.3g * eps*||ref||' % (what, diff / (eps * nref) if nref else float('inf')))
        if res['cpp'][1] > 0 or d == 1:
            ctx.nontrivial(('fast_matvec', tuple(M), tuple(N), tuple(case['RA']), tuple(case['RB']), case['guess'], int(math.log10(eps)), case['sidx'], case['dtype']))
        else:
            ctx.count('cpp_path_not_observed')


# ---- sanitizer pass ------------------------------------------------------------------------------------------------

def run_sanitizer_pass(asan_dir, tier='thorough', nshards=12, stride=11):
    from .. import cppbuild
    work = os.path.join(HERE, '.work', 'c17-san-%d' % os.getpid())
    shutil.rmtree(work, ignore_errors=True)
    os.makedirs(work)
    env = dict(os.environ)
    env.update({'TTMON_CPP_DIR': asan_dir, 'LD_PRELOAD': cppbuild.sanitizer_preload(), 'TTMON_CASE_STRIDE': str(stride), 'TTMON_NO_REACH': '1',
                'ASAN_OPTIONS': 'detect_leaks=0:halt_on_error=0:abort_on_error=0:log_path=%s' % os.path.join(work, 'asan'),
                'UBSAN_OPTIONS': 'print_stacktrace=1:halt_on_error=0:log_path=%s' % os.path.join(work, 'ubsan')})
    seed = int(os.environ.get('VERIF_SEED', '0') or 0)
    procs = []
    for s in range(nshards):
        out = os.path.join(work, 'w%d.jsonl' % s)
        err = open(os.path.join(work, 'w%d.err' % s), 'w')
        procs.append((subprocess.Popen([sys.executable, '-m', 'ttmon.worker', 'C17', tier, str(seed), str(s), str(nshards), out], cwd=HERE, env=env, stdout=err, stderr=subprocess.STDOUT), err))
    rcs = []
    for p, err in procs:
        try:
            rcs.append(p.wait(timeout=3000))
        except subprocess.TimeoutExpired:
            p.kill()
            rcs.append('timeout')
        err.close()
    done = 0
    cpp_calls = 0
    for f in glob.glob(os.path.join(work, 'w*.jsonl')):
        for line in open(f):
            try:
                o = json.loads(line)
            except ValueError:
                continue
            if 'i' in o and o.get('st') == 'ok':
                done += 1
                cpp_calls += sum(v for k, v in o.get('c', {}).items() if k.startswith('cpp_calls'))
    blocks = []
    for f in glob.glob(os.path.join(work, 'asan*')) + glob.glob(os.path.join(work, 'ubsan*')):
        txt = open(f, errors='replace').read()
        for blk in re.split(r'\n(?==+\d+==ERROR|.*runtime error:)', txt):
            if 'ERROR: AddressSanitizer' in blk or 'runtime error:' in blk:
                blocks.append(blk)
    ours, noise = {}, 0
    for blk in blocks:
        if 'torchttcpp' in blk or '/cpp/' in blk:
            m = re.search(r'(ERROR: AddressSanitizer: [\w-]+|runtime error: [^\n]{0,80})', blk)
            frames = re.findall(r'#\d+ 0x[0-9a-f]+ in ([^\s(]+)', blk)[:3]
            sigk = (m.group(1) if m else 'report') + ' @ ' + '<'.join(frames)
            ours.setdefault(sigk, blk[:1500])
        else:
            noise += 1
    res = {'status': 'ran', 'cases_completed_under_sanitizer': done, 'cpp_calls_under_sanitizer': cpp_calls, 'worker_exit_codes': rcs, 'report_blocks': len(blocks),
           'reports_in_torchttcpp': len(ours), 'reports_elsewhere(noise)': noise, 'distinct_reports': list(ours.keys())[:10], '_details': ours}
    shutil.rmtree(work, ignore_errors=True)
    return res


def extra_violations(build_info):
    out = []
    san = (build_info or {}).get('sanitizer') or {}
    for sigk, blk in (san.get('_details') or {}).items():
        out.append(('C17/sanitizer/' + sigk.split(' @ ')[0].replace(' ', '-'), 'sanitizer report with a frame in torchttcpp.so: ' + blk, {'gen': 'sanitizer', 'report': sigk}))
    return out


def extra_reasons(build_info):
    san = (build_info or {}).get('sanitizer') or {}
    if san.get('status') != 'ran':
        return ['sanitizer monitor did not run: %s' % san.get('status')]
    if san.get('cases_completed_under_sanitizer', 0) < 10 or san.get('cpp_calls_under_sanitizer', 0) < 5:
        return ['sanitizer monitor observed too little: %d cases, %d calls into torchttcpp' % (san.get('cases_completed_under_sanitizer', 0), san.get('cpp_calls_under_sanitizer', 0))]
    return []
