"""C19 - copies and save/load round-trips reproduce the object exactly."""
import os
import random
import shutil
import tempfile
import numpy as np
import torch

from .. import dense as dn
from .. import gens
from ..ctx import Raised

PROP = 'C19'
HERE = os.path.dirname(os.path.dirname(os.path.dirname(os.path.abspath(__file__))))
RULE = ('cases = TT tensors / TT matrices of order 1..6, f32/f64/c64/c128, obtained from {core lists, TT-SVD of a dense array (rank list with numpy integers), '
        'slicing (non-contiguous core views), transposition, conj, rounding, arithmetic} x {save+load into a fresh directory (in half of the cases the file is rewritten with another object before the loaded one is compared), clone, detach (tracked and '
        'untracked), cpu, to(dtype), numpy}. Oracle: loaded object has identical kind/N/M/R/dtype and torch.equal cores; clone has equal cores and disjoint '
        'storage ranges, and after an in-place resizing set_core on either of the two the other keeps its metadata, cores and dense value; the others have the same dense value (converted dtype for to()). distinct = (source, op, structure, dtype); all non-trivial.')
ASSUMPTIONS = ['the unpickling policy is whatever the installed torch enforces (weights_only default) - that is the environment users have']
REQUIRED_REACH = ['_extras:save', '_extras:load', '_tt_base:TT.clone', '_tt_base:TT.detach', '_tt_base:TT.cpu', '_tt_base:TT.to', '_tt_base:TT.numpy']
REQUIRED_COUNTS = {'op:saveload': 1, 'op:clone': 1, 'clone_independence_histories': 20, 'copy_after_inplace_write_histories': 50, 'op:detach': 1, 'op:cpu': 1, 'op:to': 1, 'to-form:positional': 1, 'to-form:device=,dtype=': 1, 'op:numpy': 1, 'source:svd': 1, 'source:slice': 1, 'source:transpose': 1,
                   'source:round': 1, 'source:buffer': 5, 'loaded_cores_bit_identical': 10, 'default-dtype:float64-during-the-copy': 20, 'file_rewritten_after_load': 5}
SOURCES = ['cores', 'svd', 'svd_ttm', 'slice', 'transpose', 'conj', 'round', 'sum', 'buffer', 'signed-zeros']
OPS = ['saveload', 'clone', 'detach', 'detach_tracked', 'cpu', 'to', 'numpy']
DTS = ['f64', 'f32', 'c128', 'c64']


def cases(tier, seed):
    rng = random.Random('C19|%d' % seed)
    cs = []
    n = 3000 if tier == 'quick' else 40000
    for i in range(n):
        d = rng.randint(1, 6)
        N = [rng.choice((1, 2, 3, 4)) for _ in range(d)]
        cs.append({'gen': 'copy', 'source': SOURCES[i % len(SOURCES)], 'op': OPS[(i // len(SOURCES)) % len(OPS)], 'N': N, 'M': [rng.choice((1, 2, 3)) for _ in range(d)],
                   'R': gens.rank_profile(rng, d, 'rand', 3), 'dtype': DTS[(i // 3) % 4], 'to_dtype': DTS[(i // 5) % 4], 'ttm': i % 3 == 0})
    return cs


def build(case, ctx, g):
    import torchtt
    dt = dn.dtype_of(case['dtype'])
    N, M, R, src = case['N'], case['M'], case['R'], case['source']
    d = len(N)
    ttm = case['ttm']
    ctx.count('source:' + src)
    if src == 'svd':
        # dense image of a low-rank TT: the SVD sweep truncates, so the rank list comes from rank_chop (numpy integers)
        A = dn.D(gens.make_tt(N, R, dt, 'gauss', g)).to(dt)
        t = ctx.call('TT(dense)', lambda a: torchtt.TT(a, eps=1e-6), A)
        ctx.count('svd_rank_element_types:' + '+'.join(sorted({type(r).__name__ for r in t.R})))
        return t
    if src == 'svd_ttm':
        if d > 4:
            N, M, R = N[:4], M[:4], R[:4] + [1]
        A = dn.D(gens.make_tt(N, R, dt, 'gauss', g, M=M)).to(dt)
        t = ctx.call('TT(dense,shape)', lambda a: torchtt.TT(a, [(m, n) for m, n in zip(M, N)], eps=1e-6), A)
        ctx.count('svd_rank_element_types:' + '+'.join(sorted({type(r).__name__ for r in t.R})))
        return t
    if src == 'buffer':
        # cores = views into ONE flat buffer at consecutive offsets; uniform interior structure every second time (equal shape and strides, different offsets)
        if case['seed'] % 2 == 0 and d >= 3:
            N, M, R = [N[0]] * d, [M[0]] * d, [1] + [R[1]] * (d - 1) + [1]
        return torchtt.TT(gens.buffer_views(gens.make_cores(N, R, dt, 'gauss', g, M=M if ttm else None)))
    if src == 'signed-zeros':
        # cores that contain +0.0 and -0.0 entries (what -eye(..), diag(x) or 0 - x produce): equal as values, different as bits
        cs_ = gens.make_cores(N, R, dt, 'gauss', g, M=M if ttm else None)
        out_ = []
        for c in cs_:
            m1 = torch.rand(c.shape, generator=g) < 0.25
            m2 = torch.rand(c.shape, generator=g) < 0.25
            c = c.clone()
            c[m1] = 0.0
            c[m2] = -0.0 if not c.is_complex() else complex(-0.0, -0.0)
            out_.append(c)
        return torchtt.TT(out_)
    base = gens.make_tt(N, R, dt, 'gauss', g, M=M if ttm else None)
    if src == 'cores':
        return base
    if src == 'slice':
        big = gens.make_tt([n + 2 for n in N], R, dt, 'gauss', g, M=[m + 1 for m in M] if ttm else None)
        style = case['seed'] % 3       # 0: strided, 1: offset + unit step (contiguous views with a storage offset), 2: mixed

        def sl(k, n):
            if style == 0 or (style == 2 and k % 2):
                return slice(0, n + 2, 2) if n > 1 else slice(1, 2)
            return slice(1, n + 1)
        if ttm:
            idx = tuple(slice(1, 1 + m) for m in M) + tuple(sl(k, n) for k, n in enumerate(N))
        else:
            idx = tuple(sl(k, n) for k, n in enumerate(N))
        if d == 1 and not ttm:
            return ctx.call('getitem', lambda t: t[idx[0]], big)
        return ctx.call('getitem', lambda t: t[idx], big)
    if src == 'transpose':
        if not ttm:
            base = gens.make_tt(N, R, dt, 'gauss', g, M=M)
        return ctx.call('t', lambda t: t.t(), base)
    if src == 'conj':
        return ctx.call('conj', lambda t: t.conj(), base)
    if src == 'round':
        return ctx.call('round', lambda t: (t + t).round(1e-10), base)
    if src == 'sum':
        return ctx.call('add', lambda t: t + t, base)
    raise AssertionError(src)


def run_case(case, ctx):
    import torchtt
    g = gens.tgen(case['seed'])
    x = build(case, ctx, g)
    if not isinstance(x, torchtt.TT):
        return   # the source degenerated to a scalar
    if case['seed'] % 5 == 0:
        # the process-wide default dtype is float64 while the copy is taken (a user who called torch.set_default_dtype): the copy's dtype is the object's, not the default
        prev = torch.get_default_dtype()
        torch.set_default_dtype(torch.float64)
        ctx.count('default-dtype:float64-during-the-copy')
        try:
            return _run_ops(case, ctx, g, x)
        finally:
            torch.set_default_dtype(prev)
    return _run_ops(case, ctx, g, x)


def _run_ops(case, ctx, g, x):
    import torchtt
    op = case['op']
    ctx.count('op:' + op.split('_')[0])
    key = '%s/source=%s' % (op, case['source'])
    what = '%s of %s (source %s)' % (op, _sig(x), case['source'])
    ref = dn.D(x)
    cores0 = [c.detach().clone() for c in x.cores]
    meta0 = (bool(x.is_ttm), list(x.N), list(x.M) if x.is_ttm else None, [int(r) for r in x.R], [c.dtype for c in x.cores])
    if op == 'saveload':
        os.makedirs(os.path.join(HERE, '.work'), exist_ok=True)
        tmp = tempfile.mkdtemp(prefix='c19-', dir=os.path.join(HERE, '.work'))
        try:
            path = os.path.join(tmp, 'obj.TT')
            if case['seed'] % 4 == 1:
                # a name WITHOUT the extension, next to an older file of ANOTHER object called <name>.TT: load(<name>) reads the file it was given
                decoy = torchtt.TT([torch.ones_like(c.detach()) * 7 for c in x.cores][:1] if len(x.cores) == 1 else [torch.ones([1, 2, 1], dtype=torch.float64), torch.ones([1, 3, 1], dtype=torch.float64)])
                ctx.lib('save', torchtt.save, decoy, path)
                path = os.path.join(tmp, 'obj')
                ctx.count('saved-under-a-name-without-extension-next-to-an-older-.TT-file')
            r = ctx.lib('save', torchtt.save, x, path)
            if isinstance(r, Raised):
                ctx.viol(key + '/clause=save-raises:%s' % r.type, '%s: save raised %r' % (what, r))
                return
            y = ctx.lib('load', torchtt.load, path)
            if case['seed'] % 2 == 0 and isinstance(y, torchtt.TT):
                # the file is written again under the same name (another object of the same structure, then junk appended): the object loaded before is a copy
                # in memory and must not follow the file
                ctx.count('file_rewritten_after_load')
                other = torchtt.TT([(c.detach() * -3 + 1).clone() for c in x.cores])
                ctx.lib('save', torchtt.save, other, path)
                y_again = ctx.lib('load', torchtt.load, path)
                if isinstance(y_again, torchtt.TT) and not all(_bits_identical((c.detach() * -3 + 1), b) for c, b in zip(x.cores, y_again.cores)):
                    ctx.viol(key + '/clause=second-load-of-rewritten-file-differs', what)
        finally:
            shutil.rmtree(tmp, ignore_errors=True)
        if isinstance(y, Raised):
            ctx.viol(key + '/clause=load-raises:%s' % y.type, '%s: load raised %r (rank list element types %s)' % (what, y, sorted({type(r).__name__ for r in x.R})))
            return
        if not isinstance(y, torchtt.TT):
            ctx.viol(key + '/clause=load-returns-non-TT', '%s: load returned %s' % (what, type(y).__name__))
            return
        meta1 = (bool(y.is_ttm), list(y.N), list(y.M) if y.is_ttm else None, [int(r) for r in y.R], [c.dtype for c in y.cores])
        if meta1 != meta0:
            ctx.viol(key + '/clause=metadata', '%s: before %s after %s' % (what, meta0, meta1))
            return
        if not all(_bits_identical(a, b) for a, b in zip(cores0, y.cores)):
            ctx.viol(key + '/clause=cores-not-bit-identical', what)
            return
        ctx.count('loaded_cores_bit_identical')
    elif op == 'clone':
        y = ctx.lib('clone', lambda t: t.clone(), x)
        if _bad(ctx, key, what, y):
            return
        if not all(a.shape == b.shape and torch.equal(a, b) for a, b in zip(cores0, y.cores)):
            ctx.viol(key + '/clause=value', what)

        def rng_of(c):
            st = c.untyped_storage()
            return (st.data_ptr(), st.data_ptr() + st.nbytes())
        if any(p[0] < q[1] and q[0] < p[1] for p in [rng_of(c) for c in x.cores if c.numel()] for q in [rng_of(c) for c in y.cores if c.numel()]):
            ctx.viol(key + '/clause=shares-storage', what)
        # independence history: an in-place set_core on one of the two (changing a mode size) must leave the other exactly as it was -
        # metadata lists, cores and dense value (an object that shares its N/M/R lists with its clone shares state, whatever the core storage)
        rr = random.Random(case['seed'] + 19)
        k = rr.randrange(len(x.N))
        modify_clone = rr.random() < 0.5
        tgt, other = (y, x) if modify_clone else (x, y)
        sh = list(tgt.cores[k].shape)
        sh[1] = sh[1] + rr.choice((1, 2))
        if tgt.is_ttm and rr.random() < 0.5:
            sh[2] = sh[2] + 1
        newcore = gens.values(sh, tgt.cores[k].dtype, 'gauss', g)
        r = ctx.lib('set_core', lambda t: t.set_core(k, newcore), tgt, inplace=(tgt,))
        if isinstance(r, Raised):
            ctx.count('set_core_refused')
        else:
            ctx.count('clone_independence_histories')
            meta1 = (bool(other.is_ttm), list(other.N), list(other.M) if other.is_ttm else None, [int(r_) for r_ in other.R], [c.dtype for c in other.cores])
            side = 'original-after-modifying-clone' if modify_clone else 'clone-after-modifying-original'
            if meta1 != meta0:
                ctx.viol(key + '/clause=shares-state(metadata)', '%s; then set_core(%d, core of shape %s) on the %s: the %s now reports %s (was %s)' % (
                    what, k, sh, 'clone' if modify_clone else 'original', 'original' if modify_clone else 'clone', meta1, meta0))
            elif not _same_cores([c.detach() for c in other.cores], cores0):
                ctx.viol(key + '/clause=shares-state(cores)', '%s; %s' % (what, side))
            else:
                try:
                    same = dn.bit_equal(dn.D(other), ref)
                except ValueError as e:
                    same = False
                if not same:
                    ctx.viol(key + '/clause=shares-state(value)', '%s; %s' % (what, side))
    elif op in ('detach', 'detach_tracked'):
        if op == 'detach_tracked':
            ctx.call('watch', lambda t: [c.requires_grad_(True) for c in t.cores if c.is_leaf and (c.is_floating_point() or c.is_complex())], x, inplace=(x,))
        y = ctx.lib('detach', lambda t: t.detach(), x)
        if _bad(ctx, key, what, y):
            return
        if any(c.requires_grad for c in y.cores):
            ctx.viol(key + '/clause=still-tracked', what)
        if not _same_cores(y.cores, cores0):
            ctx.viol(key + '/clause=value', what)
    elif op == 'cpu':
        y = ctx.lib('cpu', lambda t: t.cpu(), x)
        if _bad(ctx, key, what, y):
            return
        if not _same_cores(y.cores, cores0):
            ctx.viol(key + '/clause=value', what)
    elif op == 'to':
        tdt = dn.dtype_of(case['to_dtype'])
        if gens.is_complex(x.cores[0].dtype) and not gens.is_complex(tdt):
            tdt = torch.complex64 if tdt == torch.float32 else torch.complex128     # complex->real casts discard data: not a copy
        # the call forms the signature to(device=None, dtype=None) allows: dtype alone, device and dtype by keyword, both positionally, device as a string
        form = ['dtype=', 'device=,dtype=', 'positional', "device='cpu',dtype="][case['seed'] % 4]
        ctx.count('to-form:' + form)
        cpu = torch.device('cpu')
        y = ctx.lib('to', {'dtype=': lambda t: t.to(dtype=tdt), 'device=,dtype=': lambda t: t.to(device=cpu, dtype=tdt), 'positional': lambda t: t.to(cpu, tdt),
                           "device='cpu',dtype=": lambda t: t.to(dtype=tdt, device='cpu')}[form], x)
        if _bad(ctx, key, what, y):
            return
        if any(c.dtype != tdt for c in y.cores):
            ctx.viol(key + '/clause=dtype', '%s to %s: result dtypes %s' % (what, tdt, [c.dtype for c in y.cores]))
            return
        if not _same_cores(y.cores, [c.to(tdt) for c in cores0]):
            ctx.viol(key + '/clause=value', '%s to %s' % (what, tdt))
    elif op == 'numpy':
        y = ctx.lib('numpy', lambda t: t.numpy(), x)
        if isinstance(y, Raised):
            ctx.viol(key + '/clause=raises:%s' % y.type, '%s raised %r' % (what, y))
            return
        if not isinstance(y, np.ndarray):
            ctx.viol(key + '/clause=returns-non-ndarray', '%s returned %s' % (what, type(y).__name__))
            return
        u = dn.ueps(x.cores[0].dtype)
        yt = torch.from_numpy(np.ascontiguousarray(y))
        if list(yt.shape) != list(ref.shape):
            ctx.viol(key + '/clause=shape', '%s: numpy shape %s, dense shape %s' % (what, list(yt.shape), list(ref.shape)))
            return
        err = dn.fro(dn.to_up(yt).to(ref.dtype) - ref)
        if not err <= 1e3 * u * dn.s_rep(x):
            ctx.viol(key + '/clause=value', '%s: err %.3e' % (what, err))
    # history for every copy operation: the caller updates a core tensor of the operand in place (an optimiser step); a copy made AFTERWARDS must show the
    # new value (nothing may be remembered from the first call), and - for clone - the copy made BEFORE must not have moved
    if op in ('numpy', 'clone', 'cpu', 'to', 'detach') and case['seed'] % 2 == 0 and not isinstance(y if op != 'saveload' else None, Raised):
        rr = random.Random(case['seed'] + 23)
        k = rr.randrange(len(x.cores))
        if x.cores[k].is_floating_point() or x.cores[k].is_complex():
            before = dn.D(y).clone() if (op == 'clone' and isinstance(y, torchtt.TT)) else None

            def write(t, k=k):
                with torch.no_grad():
                    t.cores[k].mul_(-0.5).add_(0.25)
            ctx.lib('core_write(in place)', write, x, inplace=(x,), resnap_all=True)
            ref2 = dn.D(x)
            fn = {'numpy': lambda t: t.numpy(), 'clone': lambda t: t.clone(), 'cpu': lambda t: t.cpu(), 'detach': lambda t: t.detach(),
                  'to': lambda t: t.to(dtype=x.cores[0].dtype)}[op]
            y2 = ctx.lib(op, fn, x)
            ctx.count('copy_after_inplace_write_histories')
            if not isinstance(y2, Raised):
                got2 = torch.from_numpy(np.ascontiguousarray(y2)) if isinstance(y2, np.ndarray) else (dn.D(y2) if isinstance(y2, torchtt.TT) else None)
                if got2 is None or list(got2.shape) != list(ref2.shape) or dn.fro(dn.to_up(got2).to(ref2.dtype) - ref2) > 1e3 * dn.ueps(x.cores[0].dtype) * dn.s_rep(x):
                    ctx.viol(key + '/clause=stale-after-in-place-write', '%s: %s() called again after a core of the operand was updated in place does not show the new value' % (what, op))
            if before is not None and not dn.bit_equal(dn.D(y), before):
                ctx.viol(key + '/clause=clone-moved-with-operand', what)
    ctx.nontrivial((case['source'], op, _sig(x), case['to_dtype'] if op == 'to' else ''))


def _bits_identical(a, b):
    """same dtype, shape and BYTES (signed zeros and NaN payloads included)"""
    if a.dtype != b.dtype or a.shape != b.shape:
        return False
    a, b = a.detach().resolve_conj().reshape(-1).clone(), b.detach().resolve_conj().reshape(-1).clone()
    return torch.equal(a.view(torch.uint8), b.view(torch.uint8)) if a.numel() else True


def _same_cores(a, b):
    """core-wise bit identity (no contraction involved: the comparison must not depend on memory layout)"""
    return len(a) == len(b) and all(p.shape == q.shape and p.dtype == q.dtype and dn.bit_equal(p, q) for p, q in zip(a, b))


def _sig(x):
    from ..hooks import signature
    return signature(x)


def _bad(ctx, key, what, y):
    import torchtt
    if isinstance(y, Raised):
        ctx.viol(key + '/clause=raises:%s' % y.type, '%s raised %r' % (what, y))
        return True
    if not isinstance(y, torchtt.TT):
        ctx.viol(key + '/clause=returns-non-TT', '%s returned %s' % (what, type(y).__name__))
        return True
    return False
