"""C11 - DMRG and AMEn products approximate the exact product within eps."""
import random
import torch

from .. import dense as dn
from .. import gens
from ..ctx import Raised

PROP = 'C11'
C_EPS = 10.0
RULE = ('cases = {fast_matvec (python backend), dmrg_hadamard, amen_mv, amen_mm} on compatible operand pairs of order 1..6, mode sizes 1..6 (rectangular operators, dense size '
        'capped at 3e5), ranks 1..4, Gaussian exact-rank and decaying-spectrum cores, zero operands, eps log-uniform in [1e-12,1e-1], default sweep budgets, with and without a '
        'user initial guess of arbitrary rank (random, or the exact product truncated at 30/10/2 percent: coarse but stationary), real and (DMRG routines) complex; a few exhausted budgets nswp=1,2 judged for acceptance/shape/finiteness only; every structural case is repeated over k internal seeds (quick k=3, thorough k=12) - the library '
        'draws its random initial guess / enrichment from the torch global RNG, which the harness seeds per execution. Oracle: result kind/shape; '
        '||D(y)-ref|| <= 10*eps*||ref|| + 1e3*u*S_rep with ref the dense product. distinct = (routine, structure, eps decade, guess, dtype, seed index); non-trivial = non-zero reference.')
from ..hist import RULE_SUFFIX as _RS
RULE = RULE + _RS
ASSUMPTIONS = ['"a small constant times eps" is fixed a priori as 10*eps', 'C++ backend off here (use_cpp=False); C17 covers it', 'amen_mv/amen_mm are exercised with real dtypes (their inner products are not conjugated)']
REQUIRED_REACH = ['_dmrg:dmrg_matvec_python', '_dmrg:dmrg_hadamard_python', '_amen:_amen_mm_python', '_amen:amen_mv', '_amen:amen_mm', '_tt_base:TT.fast_matvec']
REQUIRED_COUNTS = {'history_value_checks': 100, 'routine:fast_matvec': 1, 'routine:dmrg_hadamard': 1, 'routine:amen_mv': 1, 'routine:amen_mm': 1, 'guess:user': 1, 'guess:coarse': 10, 'guess:block': 5, 'structure:cancellation': 5, 'budget:nswp=1': 1, 'budget:nswp=2': 1, 'order:1': 1, 'order:2': 1, 'executions': 300}
LINE_FUNCS = ['dmrg_matvec_python', 'dmrg_hadamard_python', '_amen_mm_python']
CASE_TIMEOUT = {'quick': 180, 'thorough': 400}
MAX_TIMEOUT_FRACTION = 0.0
ROUTINES = ['fast_matvec', 'dmrg_hadamard', 'amen_mv', 'amen_mm']


def cases(tier, seed):
    rng = random.Random('C11|%d' % seed)
    T = tier == 'thorough'
    cs = []
    nstruct = 450 if not T else 3000
    k = 3 if not T else 12
    for i in range(nstruct):
        routine = ROUTINES[i % 4]
        d = rng.choice([1, 2, 2, 3, 3, 4, 4, 5, 6])
        cap = 3e5
        while True:
            M = [rng.randint(1, 6) for _ in range(d)]
            N = [rng.randint(1, 6) for _ in range(d)]
            K = [rng.randint(1, 4) for _ in range(d)]
            if routine == 'amen_mm':
                if dn.prod(M) * dn.prod(N) <= cap and dn.prod(N) * dn.prod(K) <= cap and dn.prod(M) * dn.prod(K) <= cap:
                    break
            elif dn.prod(M) * dn.prod(N) <= cap:
                break
        base = {'gen': 'prod', 'routine': routine, 'M': M, 'N': N, 'K': K, 'RA': gens.rank_profile(rng, d, 'rand', 4), 'RB': gens.rank_profile(rng, d, 'rand', 4),
                'vals': ['gauss', 'decay', 'gauss', 'deep4'][(i // 4) % 4], 'eps': 10 ** rng.uniform(-12, -1), 'guess': ['none', 'none', 'user'][(i // 2) % 3],
                'dtype': 'c128' if (routine in ('fast_matvec', 'dmrg_hadamard') and i % 5 == 4) else 'f64', 'vseed': rng.randrange(2 ** 40), 'RG': gens.rank_profile(rng, d, 'rand', 5),
                'scale': [1.0, 1.0, 1e4, 1e-4, 1.0, 1e3, 1e-15][(i // 4) % 7]}
        for j in range(k):
            c = dict(base)
            c['sidx'] = j
            cs.append(c)
    # directed: long chains whose LAST modes are tiny while the inner product ranks are large (the last supercore converges at once, the inner ones do not)
    for i in range(8 if not T else 60):
        routine = ROUTINES[i % 4]
        d = rng.choice([4, 5])
        inner = rng.choice((5, 6))
        M = [inner] * (d - 1) + [rng.choice((1, 2))]
        N = [inner] * (d - 1) + [rng.choice((1, 2))]
        if routine == 'amen_mm':
            M, N = [4] * (d - 1) + [2], [4] * (d - 1) + [rng.choice((1, 2))]
        for j in range(k):
            cs.append({'gen': 'prod', 'routine': routine, 'M': M, 'N': N, 'K': [2] * (d - 1) + [1], 'RA': [1] + [4] * (d - 1) + [1], 'RB': [1] + [4] * (d - 1) + [1], 'vals': 'gauss',
                       'eps': 10 ** rng.uniform(-10, -6), 'guess': ['none', 'user'][i % 2], 'dtype': 'f64', 'vseed': rng.randrange(2 ** 40), 'RG': [1] + [2] * (d - 1) + [1], 'sidx': j, 'scale': 1.0})
    # directed: the low end of the eps range on operands whose bond weights span twelve orders (deep4): components between 1e-12 and 1e-10 of the product must survive
    for i in range(12 if not T else 96):
        routine = ROUTINES[i % 4]
        d = rng.choice([4, 4, 5])        # interior bonds that can carry the 8 product weights (a mode of size <= 6 caps the outer bonds)
        M = [rng.randint(4, 6) if d == 4 else rng.randint(3, 4) for _ in range(d)]
        N = [rng.randint(4, 6) if d == 4 else rng.randint(3, 4) for _ in range(d)]
        for j in range(k):
            cs.append({'gen': 'prod', 'routine': routine, 'M': M, 'N': N, 'K': [rng.randint(1, 2) for _ in range(d)], 'RA': [1] + [2] * (d - 1) + [1],
                       'RB': [1] + [4] * (d - 1) + [1], 'vals': 'deep4', 'eps': [1e-12, 3e-12, 1e-11][(i // 4) % 3], 'guess': ['none', 'user'][(i // 4) % 2], 'dtype': 'f64',
                       'vseed': rng.randrange(2 ** 40), 'RG': [1] + [3] * (d - 1) + [1], 'sidx': j, 'scale': 1.0, 'tinyeps': True})
    # directed: products with a PRESCRIBED spectrum 1, 1e-4, 1e-8, t on every bond (t = 3e-11 .. 8e-11) at eps = 1e-12: second operand sum_j s_j u_j x v_j x w_j with orthonormal
    # factors, first operand a rank-one orthogonal operator (a rank-one sign tensor for the Hadamard product), so the product has exactly that spectrum; the
    # component t >= 30 eps must survive
    for i in range(8 if not T else 64):
        routine = ROUTINES[i % 4]
        n3 = [rng.randint(4, 6) for _ in range(3)]
        for j in range(k):
            cs.append({'gen': 'prod', 'routine': routine, 'M': list(n3), 'N': list(n3), 'K': [rng.randint(1, 2) for _ in range(3)], 'RA': [1, 1, 1, 1], 'RB': [1, 4, 4, 1], 'vals': 'gauss',
                       'eps': 1e-12, 'guess': ['none', 'user'][(i // 4) % 2], 'dtype': 'f64', 'vseed': rng.randrange(2 ** 40), 'RG': [1, 3, 3, 1], 'sidx': j, 'scale': 1.0,
                       'tail4': [3e-11, 5e-11, 8e-11][(i // 4) % 3]})
    # directed: a second operand whose terms cancel, x = (y + delta*z) - y formed by the library (delta 1e-5 / 1e-6), at eps = 1e-12: the sweeps cannot reach a relative change
    # of eps (the operand itself is only known to u/delta), so the whole default sweep budget is used and the code of the LAST permitted sweep decides the result
    for i in range(12 if not T else 96):
        routine = ROUTINES[i % 4]
        d = rng.choice([3, 3, 4])
        n = rng.choice((4, 5))
        for j in range(k):
            cs.append({'gen': 'prod', 'routine': routine, 'M': [n] * d, 'N': [n] * d, 'K': [2] * d, 'RA': [1] + [rng.randint(1, 2) for _ in range(d - 1)] + [1],
                       'RB': [1] + [rng.randint(1, 2) for _ in range(d - 1)] + [1], 'vals': 'gauss', 'eps': 1e-12, 'guess': 'none', 'dtype': 'f64', 'vseed': rng.randrange(2 ** 40),
                       'RG': [1] * (d + 1), 'sidx': j, 'scale': 1.0, 'stall': [1e-5, 1e-6][(i // 4) % 2]})
    # directed: order 1 and 2, singleton modes, zero operands
    for routine in ROUTINES:
        for (M, N) in [([3], [4]), ([1], [1]), ([2, 3], [3, 2]), ([1, 4], [2, 1]), ([2, 1, 2], [1, 3, 1])]:
            for guess in ('none', 'user'):
                for vals in ('gauss', 'zero'):
                    d = len(M)
                    cs.append({'gen': 'prod', 'routine': routine, 'M': M, 'N': N, 'K': [2] * d, 'RA': [1] + [2] * (d - 1) + [1], 'RB': [1] + [2] * (d - 1) + [1], 'vals': vals,
                               'eps': 1e-8, 'guess': guess, 'dtype': 'f64', 'vseed': 12345 + len(cs), 'RG': [1] + [3] * (d - 1) + [1], 'sidx': 0})
    # directed: user guesses that are COARSE BUT STATIONARY approximations of the product (the exact product truncated at 30%..2%): every local update reproduces
    # the guess, so only the residual enrichment can reveal what is missing
    for i in range(48 if not T else 400):
        routine = ROUTINES[i % 4]
        d = rng.choice([2, 3, 4])
        M = [rng.randint(2, 5) for _ in range(d)]
        N = [rng.randint(2, 5) for _ in range(d)]
        cs.append({'gen': 'prod', 'routine': routine, 'M': M, 'N': N, 'K': [rng.randint(2, 3) for _ in range(d)], 'RA': [1] + [rng.randint(2, 4) for _ in range(d - 1)] + [1],
                   'RB': [1] + [rng.randint(2, 4) for _ in range(d - 1)] + [1], 'vals': ['gauss', 'decay'][(i // 4) % 2], 'eps': 10 ** rng.uniform(-10, -4), 'guess': 'coarse',
                   'coarse_eps': [0.3, 0.1, 0.02][(i // 8) % 3], 'dtype': 'f64', 'vseed': rng.randrange(2 ** 40), 'RG': [1] * (d + 1), 'sidx': 0, 'scale': 1.0})
    # directed: "block" guesses - the operands are direct sums over two disjoint index blocks (x = x1 (+) x2, A = A1 (+) A2) and the guess is the exact product of the
    # FIRST blocks only: it is a fixed point of every update that keeps the frames of the guess, and only enrichment can find the second block
    for i in range(16 if not T else 160):
        routine = ['fast_matvec', 'dmrg_hadamard', 'amen_mv', 'fast_matvec'][i % 4]
        d = rng.choice([3, 4])
        cs.append({'gen': 'prod', 'routine': routine, 'M': [3] * d, 'N': [3] * d, 'K': [2] * d, 'RA': [1] + [2] * (d - 1) + [1], 'RB': [1] + [2] * (d - 1) + [1], 'vals': 'gauss',
                   'eps': 10 ** rng.uniform(-10, -5), 'guess': 'block', 'dtype': 'c128' if (i % 8 == 5 and routine != 'amen_mv') else 'f64', 'vseed': rng.randrange(2 ** 40), 'RG': [1] * (d + 1), 'sidx': 0, 'scale': 1.0})
    # directed: CANCELLATION - the product is much smaller than its operands: an operator whose rows sum to zero applied to ones + (eps/50)*noise; a 0/1 mask times a
    # tensor that is large off the mask and O(eps/50) on it.  The contract is relative to the PRODUCT.
    for i in range(16 if not T else 160):
        routine = ['fast_matvec', 'dmrg_hadamard', 'amen_mv', 'dmrg_hadamard'][i % 4]
        d = rng.choice([3, 3, 4])
        n = rng.choice((4, 5, 6))
        cs.append({'gen': 'prod', 'routine': routine, 'M': [n] * d, 'N': [n] * d, 'K': [2] * d, 'RA': [1] * (d + 1), 'RB': [1] + [rng.randint(1, 3) for _ in range(d - 1)] + [1], 'vals': 'gauss',
                   'eps': 10 ** rng.uniform(-6, -2), 'guess': 'none', 'cancel': True, 'dtype': 'c128' if (i % 8 == 5 and routine != 'amen_mv') else 'f64', 'vseed': rng.randrange(2 ** 40),
                   'RG': [1] * (d + 1), 'sidx': 0, 'scale': 1.0})
    # directed: exhausted sweep budget (nswp=1,2): the final-sweep branch of the DMRG/AMEn loops (no enrichment, transposed factor); the accuracy clause is NOT demanded here
    # (the statement is about the default budgets) - only kind/shape/well-formed/finite
    for i in range(24 if not T else 160):
        routine = ROUTINES[i % 4]
        d = rng.choice([2, 3, 4])
        M = [rng.randint(1, 5) for _ in range(d)]
        N = [rng.randint(1, 5) for _ in range(d)]
        cs.append({'gen': 'prod', 'routine': routine, 'M': M, 'N': N, 'K': [rng.randint(1, 3) for _ in range(d)], 'RA': gens.rank_profile(rng, d, 'rand', 4), 'RB': gens.rank_profile(rng, d, 'rand', 4),
                   'vals': 'gauss', 'eps': 10 ** rng.uniform(-10, -3), 'guess': ['none', 'user'][(i // 4) % 2], 'dtype': 'c128' if (routine in ('fast_matvec', 'dmrg_hadamard') and i % 3 == 2) else 'f64',
                   'vseed': rng.randrange(2 ** 40), 'RG': gens.rank_profile(rng, d, 'rand', 3), 'sidx': 0, 'scale': 1.0, 'nswp': 1 + (i // 8) % 2})
    from .. import hist
    cs += [dict(c, dtype=['f64', 'c128'][k % 2]) for k, c in enumerate(hist.cases(PROP, tier, seed))]
    return cs


def mk(case, g, N, R, M=None, vals=None):
    import torchtt
    dt = dn.dtype_of(case['dtype'])
    vals = vals or case['vals']
    sc = float(case.get('scale', 1.0))      # overall magnitude of the operand (norm-rescaling inside the sweeps must not leak into the tolerance)
    cores = gens.make_cores(N, R, dt, 'gauss' if vals in ('decay', 'deep4') else vals, g, M=M)
    if vals == 'deep4':
        # bond weights 1, 3e-4, 1e-7, 3e-11: twelve orders of magnitude within rank 4 (truncation decisions that matter only at tiny eps)
        cores = [c * torch.tensor([10.0 ** (-3.5 * j) for j in range(c.shape[-1])], dtype=torch.float64).to(c.dtype) for c in cores]
    if vals == 'decay':
        out = []
        for c in cores:
            w = torch.tensor([0.2 ** j for j in range(c.shape[-1])], dtype=torch.float64).to(c.dtype)
            out.append(c * w)
        cores = out
    if sc != 1.0:
        cores[0] = cores[0] * sc
    # memory layout of the operand: same numbers, other strides / one shared buffer (what t(), slicing, round() or a parameter buffer hand out)
    lay = (case.get('vseed', 0) // 3) % 5
    if lay == 3:
        cores = [c.permute(*reversed(range(c.dim()))).contiguous().permute(*reversed(range(c.dim()))) for c in cores]
    elif lay == 4:
        cores = gens.buffer_views(cores)
    return torchtt.TT(cores)


def run_case(case, ctx):
    import torchtt
    if case['gen'] == 'hist':
        from .. import hist
        return hist.run(PROP, case, ctx)
    g = gens.tgen(case['vseed'])
    dt = dn.dtype_of(case['dtype'])
    routine, M, N, K, eps = case['routine'], case['M'], case['N'], case['K'], case['eps']
    d = len(M)
    ctx.count('routine:' + routine)
    ctx.count('order:%d' % d)
    ctx.count('executions')
    guess = None
    if routine == 'fast_matvec':
        A, x = mk(case, g, N, case['RA'], M=M), mk(case, g, N, case['RB'])
        ref = torch.tensordot(dn.D(A), dn.D(x), dims=d)
        wantN, wantM = M, None
        if case['guess'] == 'user':
            guess = mk(case, g, M, case['RG'], vals='gauss')
        f = (lambda a, b, c: a.fast_matvec(b, eps=eps, initial=c, use_cpp=False)) if guess is not None else (lambda a, b: a.fast_matvec(b, eps=eps, use_cpp=False))
        ops = (A, x)
    elif routine == 'dmrg_hadamard':
        A, x = mk(case, g, N, case['RA']), mk(case, g, N, case['RB'])
        ref = dn.D(A) * dn.D(x)
        wantN, wantM = N, None
        if case['guess'] == 'user':
            guess = mk(case, g, N, case['RG'], vals='gauss')
        f = (lambda a, b, c: torchtt.dmrg_hadamard(a, b, z0=c, eps=eps)) if guess is not None else (lambda a, b: torchtt.dmrg_hadamard(a, b, eps=eps))
        ops = (A, x)
    elif routine == 'amen_mv':
        A, x = mk(case, g, N, case['RA'], M=M), mk(case, g, N, case['RB'])
        ref = torch.tensordot(dn.D(A), dn.D(x), dims=d)
        wantN, wantM = M, None
        if case['guess'] == 'user':
            guess = mk(case, g, M, case['RG'], vals='gauss')
        f = (lambda a, b, c: torchtt.amen_mv(a, b, x0=c, eps=eps)) if guess is not None else (lambda a, b: torchtt.amen_mv(a, b, eps=eps))
        ops = (A, x)
    else:
        A, x = mk(case, g, N, case['RA'], M=M), mk(case, g, K, case['RB'], M=N)
        ref = torch.tensordot(dn.D(A), dn.D(x), dims=d)
        wantN, wantM = K, M
        if case['guess'] == 'user':
            guess = mk(case, g, K, case['RG'], M=M, vals='gauss')
        f = (lambda a, b, c: torchtt.amen_mm(a, b, X0=c, eps=eps)) if guess is not None else (lambda a, b: torchtt.amen_mm(a, b, eps=eps))
        ops = (A, x)
    if case.get('stall'):
        ctx.count('class:cancelling-second-operand')
        z_ = mk(case, g, list(x.N), [1] * (d + 1), M=list(x.M) if x.is_ttm else None, vals='gauss')
        dl_ = case['stall']
        y_ = ctx.call('TT+TT', lambda p_, q_: p_ + dl_ * q_, x, z_)
        x = ctx.call('TT-TT', lambda p_, q_: p_ - q_, y_, x)
        ref = dn.D(A) * dn.D(x) if routine == 'dmrg_hadamard' else torch.tensordot(dn.D(A), dn.D(x), dims=d)
        ops = (A, x)
    if case.get('tail4'):
        ctx.count('class:prescribed-spectrum-tail')
        sig = torch.tensor([1.0, 1e-4, 1e-8, case['tail4']], dtype=torch.float64)

        def spectrum_cores(modes):
            cs_ = []
            for k_, n_k in enumerate(modes):
                Q = gens.orth(n_k, g, torch.float64)[:, :4]
                if k_ == 0:
                    cs_.append((Q * sig).reshape(1, n_k, 4))
                elif k_ == len(modes) - 1:
                    cs_.append(Q.T.reshape(4, n_k, 1).contiguous())
                else:
                    c_ = torch.zeros(4, n_k, 4, dtype=torch.float64)
                    for j_ in range(4):
                        c_[j_, :, j_] = Q[:, j_]
                    cs_.append(c_)
            return cs_
        if routine == 'amen_mm':
            xc = spectrum_cores([n_k * k_k for n_k, k_k in zip(N, K)])
            x = torchtt.TT([c_.reshape(c_.shape[0], n_k, k_k, c_.shape[-1]) for c_, n_k, k_k in zip(xc, N, K)])
        else:
            x = torchtt.TT(spectrum_cores(N))
        if routine == 'dmrg_hadamard':
            A = torchtt.rank1TT([torch.where(torch.rand(n_k, generator=g) < 0.5, -1.0, 1.0).to(torch.float64) for n_k in N])
            ref = dn.D(A) * dn.D(x)
        else:
            A = torchtt.TT([gens.orth(n_k, g, torch.float64).reshape(1, n_k, n_k, 1) for n_k in N])
            ref = torch.tensordot(dn.D(A), dn.D(x), dims=d)
        ops = (A, x)
    if case.get('cancel'):
        n_ = N[0]
        delta = eps / 50.0
        zt = mk(case, g, N, case['RB'])
        zt = ctx.call('TT*scalar', lambda t: t * (delta / max(dn.fro(dn.D(t)), 1e-300) * (n_ ** d) ** 0.5), zt)     # entries of size ~delta
        ones_ = torchtt.ones(N, dtype=dt)
        if routine == 'dmrg_hadamard':
            mvec = [torch.tensor([1.0] * (n_ // 2) + [0.0] * (n_ - n_ // 2), dtype=dt) for _ in range(d)]
            msk = torchtt.rank1TT(mvec)                                               # 0/1 mask of rank one
            big = ctx.call('TT-TT', lambda a_, b_: (a_ - b_) * 7.0, ones_, msk)       # large off the mask, exactly zero on it
            x = ctx.call('TT+TT', lambda a_, b_: a_ + b_, big, zt)
            A = msk
            ref = dn.D(A) * dn.D(x)
            wantN, wantM = N, None
            f = lambda a, b: torchtt.dmrg_hadamard(a, b, eps=eps)
        else:
            Lk = []
            for _ in range(d):
                L = 2.0 * torch.eye(n_, dtype=dt) - torch.roll(torch.eye(n_, dtype=dt), 1, 0) - torch.roll(torch.eye(n_, dtype=dt), -1, 0)   # circulant second difference: rows sum to zero
                Lk.append(L.reshape(1, n_, n_, 1))
            A = torchtt.TT(Lk)
            x = ctx.call('TT+TT', lambda a_, b_: a_ + b_, ones_, zt)
            ref = torch.tensordot(dn.D(A), dn.D(x), dims=d)
            wantN, wantM = N, None
            f = (lambda a, b: a.fast_matvec(b, eps=eps, use_cpp=False)) if routine == 'fast_matvec' else (lambda a, b: torchtt.amen_mv(a, b, eps=eps))
        M = N
        ops = (A, x)
        guess = None
        ctx.count('structure:cancellation')
        ctx.metric('product_norm_over_operand_norms', dn.fro(ref) / max(dn.fro(dn.D(A)) * dn.fro(dn.D(x)), 1e-300))
    if case['guess'] == 'block':
        # rebuild the operands as direct sums over two index blocks and take the exact product of the first blocks as the guess (library + and @ / *, decided by C03/C04)
        def emb(t, off, tot, op=False):
            out = []
            for c in t.cores:
                sh = list(c.shape)
                if op:
                    big = torch.zeros([sh[0], tot, tot, sh[3]], dtype=c.dtype)
                    big[:, off:off + sh[1], off:off + sh[2], :] = c
                else:
                    big = torch.zeros([sh[0], tot, sh[2]], dtype=c.dtype)
                    big[:, off:off + sh[1], :] = c
                out.append(big)
            return torchtt.TT(out)
        n1 = 3
        tot = 2 * n1
        if routine == 'dmrg_hadamard':
            a1, a2, b1, b2 = (mk(case, g, [n1] * d, case['RA']) for _ in range(4))
            A1e, A2e, x1e, x2e = emb(a1, 0, tot), emb(a2, n1, tot), emb(b1, 0, tot), emb(b2, n1, tot)
            A = ctx.call('TT+TT', lambda p_, q_: p_ + q_, A1e, A2e)
            x = ctx.call('TT+TT', lambda p_, q_: p_ + q_, x1e, x2e)
            guess = ctx.call('TT*TT', lambda p_, q_: p_ * q_, A1e, x1e)
            ref = dn.D(A) * dn.D(x)
            wantN, wantM = [tot] * d, None
        else:
            a1, a2 = mk(case, g, [n1] * d, case['RA'], M=[n1] * d), mk(case, g, [n1] * d, case['RA'], M=[n1] * d)
            b1, b2 = mk(case, g, [n1] * d, case['RB']), mk(case, g, [n1] * d, case['RB'])
            A1e, A2e, x1e, x2e = emb(a1, 0, tot, True), emb(a2, n1, tot, True), emb(b1, 0, tot), emb(b2, n1, tot)
            A = ctx.call('TTM+TTM', lambda p_, q_: p_ + q_, A1e, A2e)
            x = ctx.call('TT+TT', lambda p_, q_: p_ + q_, x1e, x2e)
            guess = ctx.call('TTM@TT', lambda p_, q_: p_ @ q_, A1e, x1e)
            ref = torch.tensordot(dn.D(A), dn.D(x), dims=d)
            wantN, wantM = [tot] * d, None
        M = N = [tot] * d
        ops = (A, x)
        srep = dn.s_rep(A) * dn.s_rep(x)
        nref = dn.fro(ref)
        ctx.count('guess:block')
        ctx.metric('block_guess_rel_error', dn.fro(dn.D(guess) - ref) / max(nref, 1e-300))
        if routine == 'fast_matvec':
            f = lambda a, b, c: a.fast_matvec(b, eps=eps, initial=c, use_cpp=False)
        elif routine == 'dmrg_hadamard':
            f = lambda a, b, c: torchtt.dmrg_hadamard(a, b, z0=c, eps=eps)
        else:
            f = lambda a, b, c: torchtt.amen_mv(a, b, x0=c, eps=eps)
    if case['guess'] == 'coarse':
        # the harness truncates the exact dense product itself (plain TT-SVD through the library constructor, which C01 decides)
        shape = [(m, k_) for m, k_ in zip(wantM, wantN)] if wantM is not None else list(wantN)
        gobj = ctx.lib('TT(dense)', lambda t: torchtt.TT(t, shape, eps=case['coarse_eps']) if wantM is not None else torchtt.TT(t, eps=case['coarse_eps']), ref)
        if isinstance(gobj, Raised) or not isinstance(gobj, torchtt.TT):
            ctx.count('coarse_guess_unavailable')
            return
        guess = gobj
        ctx.metric('coarse_guess_rel_error', dn.fro(dn.D(guess) - ref) / max(dn.fro(ref), 1e-300))
        ctx.count('guess:coarse')
        if routine == 'fast_matvec':
            f = lambda a, b, c: a.fast_matvec(b, eps=eps, initial=c, use_cpp=False)
        elif routine == 'dmrg_hadamard':
            f = lambda a, b, c: torchtt.dmrg_hadamard(a, b, z0=c, eps=eps)
        elif routine == 'amen_mv':
            f = lambda a, b, c: torchtt.amen_mv(a, b, x0=c, eps=eps)
        else:
            f = lambda a, b, c: torchtt.amen_mm(a, b, X0=c, eps=eps)
    nswp = case.get('nswp')
    if nswp:
        ctx.count('budget:nswp=%d' % nswp)
        if routine == 'fast_matvec':
            f = (lambda a, b, c: a.fast_matvec(b, eps=eps, initial=c, nswp=nswp, use_cpp=False)) if guess is not None else (lambda a, b: a.fast_matvec(b, eps=eps, nswp=nswp, use_cpp=False))
        elif routine == 'dmrg_hadamard':
            f = (lambda a, b, c: torchtt.dmrg_hadamard(a, b, z0=c, eps=eps, nswp=nswp)) if guess is not None else (lambda a, b: torchtt.dmrg_hadamard(a, b, eps=eps, nswp=nswp))
        elif routine == 'amen_mv':
            f = (lambda a, b, c: torchtt.amen_mv(a, b, x0=c, eps=eps, nswp=nswp)) if guess is not None else (lambda a, b: torchtt.amen_mv(a, b, eps=eps, nswp=nswp))
        else:
            f = (lambda a, b, c: torchtt.amen_mm(a, b, X0=c, eps=eps, nswp=nswp)) if guess is not None else (lambda a, b: torchtt.amen_mm(a, b, eps=eps, nswp=nswp))
    if guess is not None:
        ctx.count('guess:user')
        ops = ops + (guess,)
    srep = dn.s_rep(A) * dn.s_rep(x)
    u = dn.ueps(dt)
    nref = dn.fro(ref)
    oclass = 'order1' if d == 1 else ('order2' if d == 2 else 'order>=3')
    key = '%s/%s/guess=%s' % (routine, oclass, case['guess'])
    what = '%s M=%s N=%s%s RA=%s RB=%s eps=%.3e guess=%s %s vals=%s scale=%g seed-index %d' % (routine, M, N, (' K=%s' % K) if routine == 'amen_mm' else '', case['RA'], case['RB'], eps, case['guess'],
                                                                                          case['dtype'], case['vals'], case.get('scale', 1.0), case['sidx'])
    y = ctx.lib(routine + ('(guess)' if guess is not None else ''), f, *ops)
    if isinstance(y, Raised):
        ctx.viol(key + '/clause=raises:%s@%s' % (y.type, y.func), '%s raised %r' % (what, y))
        return
    if not isinstance(y, torchtt.TT):
        ctx.viol(key + '/clause=returns-non-TT', '%s returned %s' % (what, type(y).__name__))
        return
    if [int(n) for n in y.N] != list(wantN) or bool(y.is_ttm) != (wantM is not None) or (wantM is not None and [int(m) for m in y.M] != list(wantM)):
        from ..hooks import signature
        ctx.viol(key + '/clause=shape', '%s: result %s' % (what, signature(y)))
        return
    try:
        dy = dn.D(y)
    except ValueError as e:
        ctx.viol(key + '/clause=ill-formed-result', '%s: %s' % (what, e))
        return
    err = dn.fro(dy - ref)
    if nswp:
        if not bool(torch.isfinite(dy.abs().sum())):
            ctx.viol(key + '/clause=non-finite(nswp=%d)' % nswp, '%s nswp=%d: non-finite entries in the result' % (what, nswp))
        if nref > 0:
            ctx.metric('exhausted_budget_err_over_eps_norm/nswp=%d' % nswp, err / (eps * nref))
            ctx.nontrivial((routine, tuple(M), tuple(N), 'nswp', nswp, case['guess'], case['dtype']))
        return
    allow = C_EPS * eps * nref + 1e3 * u * srep
    if allow > 0:
        ctx.metric('err_over_allowance', err / allow)
    if nref > 0 and eps >= 1e-9:
        ctx.metric('err_over_eps_norm(eps>=1e-9)/' + routine, err / (eps * nref))
    if not err <= allow:
        ctx.viol(key + '/clause=error>10eps', '%s: ||D(y)-ref||=%.4e > 10*eps*||ref||=%.4e (+%.1e roundoff); ratio err/(eps||ref||)=%.3g; result ranks %s' % (
            what, err, C_EPS * eps * nref, 1e3 * u * srep, err / (eps * nref) if nref > 0 else float('inf'), [int(r) for r in y.R]))
    if nref > 0:
        import math
        ctx.nontrivial((routine, tuple(M), tuple(N), tuple(case['RA']), tuple(case['RB']), int(math.log10(eps)), case['guess'], case['dtype'], case['vals'], case.get('scale', 1.0), case['sidx']))
    else:
        ctx.count('zero_reference_executions')
