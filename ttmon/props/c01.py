"""C01 - TT-SVD meets the requested accuracy and rank bounds for every dense input."""
import math
import random
import numpy as np
import torch

from .. import dense as dn
from .. import gens
from ..ctx import Raised

PROP = 'C01'
RULE = ('cases = constructor calls TT(dense, shape?, eps, rmax) on {Gaussian arrays, dense images of low-rank TTs, superdiagonal tensors with prescribed singular '
        'spectra (geometric, flat-with-tail, integer; rotated and unrotated), graded, zero} x order 1..6 x singleton modes x f64/f32/c128/c64 x torch/numpy source x '
        '{no shape, explicit tensor shape, operator shape incl. order 1} x eps log-uniform in [1e-12,0.9] x rmax {none,int,list; binding or not}; plus ADAPTIVE '
        'STRESS: for small inputs the harness scans eps over a grid, bisects every interval where the returned rank vector changes down to adjacent floats against '
        'the real code, and checks every execution on the way (the two sides of a breakpoint are where err/eps peaks and where exact threshold ties live). '
        'Oracle per execution: shape as requested; boundary ranks 1; R<=rmax; R<=exact unfolding rank (eps above roundoff level); '
        '||D(t)-A|| <= eps||A|| + 1e3 u ||A|| when no rank hits rmax. distinct = (generator, structure, dtype, source, shape form, rmax form); '
        'non-trivial = at least one bond truncated below the full unfolding size.')
ASSUMPTIONS = ['exact unfolding ranks are measured by the harness as the number of singular values above 1e-10 (f64) / 1e-5 (f32) relative to the largest',
               '"rmax binding" is decided conservatively: the error clause is skipped whenever some returned rank equals its cap']
REQUIRED_REACH = ['_decomposition:to_tt', '_decomposition:mat_to_tt', '_decomposition:rank_chop', '_decomposition:SVD', '_tt_base:TT.__init__']
REQUIRED_COUNTS = {'source:numpy': 1, 'source:numpy-fortran-ordered-regrouped': 5, 'source:torch': 1, 'shape:none': 1, 'shape:tensor': 1, 'shape:operator': 1, 'structure:tall-unfolding': 1, 'rmax:int': 1, 'rmax:list': 1, 'rmax:list-reused-across-calls': 5, 'structure:signal+flat-noise-tail': 4,
                   'truncating_executions': 50, 'breakpoints_bisected': 5, 'executions': 500}
LINE_FUNCS = ['to_tt', 'mat_to_tt', 'rank_chop', 'SVD']
CASE_TIMEOUT = {'quick': 120, 'thorough': 300}
DTS = ['f64', 'f64', 'f32', 'c128', 'c64']


def cases(tier, seed):
    rng = random.Random('C01|%d' % seed)
    T = tier == 'thorough'
    cs = []
    kinds = ['gauss', 'lowrank', 'superdiag', 'superdiag_flat', 'graded', 'lowrank', 'zero', 'superdiag_int']
    for i in range(2500 if not T else 40000):
        d = rng.choice([1, 2, 2, 3, 3, 3, 4, 4, 5, 6])
        pool = (1, 2, 3, 4, 5, 7) if d <= 4 else (1, 2, 3, 4)
        N = [rng.choice(pool) for _ in range(d)]
        kind = kinds[i % len(kinds)]
        shape = ['none', 'none', 'tensor', 'operator'][(i // 8) % 4]
        c = {'gen': 'random', 'kind': kind, 'N': N, 'dtype': DTS[(i // 3) % 5], 'source': 'numpy' if i % 4 == 1 else 'torch', 'shape': shape,
             'eps': 10 ** rng.uniform(-12, -0.05), 'rmax': ['none', 'none', 'int', 'list'][(i // 5) % 4]}
        if shape == 'operator':
            dd = min(d, 3)
            c['M'] = [rng.choice((1, 2, 3)) for _ in range(dd)]
            c['N'] = [rng.choice((1, 2, 3, 4)) for _ in range(dd)]
        cs.append(c)
    # directed: tall first unfolding (>= 10x), order-1 forms, explicit shapes
    for (N, dt) in [([40, 2], 'f64'), ([64, 2, 2], 'f64'), ([33, 3], 'c128'), ([50, 1, 2], 'f32'), ([2, 40], 'f64')]:
        for kind in ('gauss', 'lowrank'):
            for eps in (1e-12, 1e-3, 0.3):
                cs.append({'gen': 'random', 'kind': kind, 'N': N, 'dtype': dt, 'source': 'torch', 'shape': 'none', 'eps': eps, 'rmax': 'none', 'tall': True})
    for i, N_ in enumerate([[4, 128, 128], [4, 16384], [4, 128, 128], [5, 20000]]):
        cs.append({'gen': 'random', 'kind': 'single_long', 'N': N_, 'dtype': ['f32', 'c64'][i % 2], 'source': ['torch', 'numpy'][(i // 2) % 2], 'shape': 'none', 'eps': 1e-4, 'rmax': 'none'})
    for src in ('torch', 'numpy'):
        for shape in ('none', 'tensor', 'operator'):
            cs.append({'gen': 'random', 'kind': 'gauss', 'N': [5], 'M': [3], 'dtype': 'f64', 'source': src, 'shape': shape, 'eps': 1e-10, 'rmax': 'none'})
    # unfoldings of rank > 100 (a rank cap that is not the caller's would show) for every source / shape form; inputs of tiny overall norm
    for src in ('torch', 'numpy'):
        for shape in ('none', 'tensor'):
            cs.append({'gen': 'random', 'kind': 'gauss', 'N': [110, 120] if shape == 'none' else [105, 2, 60], 'dtype': 'f64', 'source': src, 'shape': shape, 'eps': 1e-12, 'rmax': 'none'})
        cs.append({'gen': 'random', 'kind': 'gauss', 'N': [12, 11], 'M': [10, 10], 'dtype': 'f64', 'source': src, 'shape': 'operator', 'eps': 1e-12, 'rmax': 'none'})
    for i in range(24 if not T else 300):
        d = rng.choice([2, 3, 3, 4])
        cs.append({'gen': 'random', 'kind': ['gauss', 'lowrank', 'superdiag'][i % 3], 'N': [rng.choice((2, 3, 4, 5)) for _ in range(d)], 'dtype': ['f64', 'c128', 'f64'][i % 3], 'source': ['torch', 'numpy'][i % 2],
                   'shape': ['none', 'tensor'][(i // 2) % 2], 'eps': 10 ** rng.uniform(-10, -1), 'rmax': 'none', 'scale': [1e-17, 1e-30, 1e20][i % 3]})
    # directed: low-rank signal + a long flat tail of weak noise, rank cap just above the signal rank, eps below the TOTAL noise level but above the energy of the few
    # noise directions that fit under the cap (whatever is cut must be accounted for in full: either the cap binds or the error stays within eps)
    for i in range(16 if not T else 160):
        d = rng.choice([2, 3, 3])
        n = rng.choice((12, 16, 20)) if d == 3 else rng.choice((24, 40))
        cs.append({'gen': 'random', 'kind': 'noisy', 'N': [n] * d, 'dtype': ['f64', 'c128', 'f64', 'f32'][i % 4], 'source': ['torch', 'numpy'][i % 2], 'shape': ['none', 'tensor'][(i // 2) % 2],
                   'eps': None, 'eps_over_noise': [0.4, 0.6, 0.25][i % 3], 'rmax': ['int', 'list'][(i // 4) % 2], 'cap_extra': 1 + (i // 8) % 3, 'rs': rng.choice((1, 2, 3))})
    # directed: TALL unfoldings (>= 10 x) whose singular values span twelve orders of magnitude, at eps 1e-10 / 1e-12: values between eps and 1e-8 of the largest must survive
    for i in range(12 if not T else 120):
        m = rng.choice((3, 4, 5))
        tall = rng.choice((60, 90, 144))
        cs.append({'gen': 'random', 'kind': 'tall_deep', 'N': [[tall // 6, 6, m], [tall, m], [6, tall // 6, m]][i % 3], 'dtype': ['f64', 'c128'][i % 2], 'source': ['torch', 'numpy'][(i // 2) % 2],
                   'shape': 'none', 'eps': [1e-10, 1e-12, 1e-9][i % 3], 'rmax': 'none', 'tall': True})
    # adaptive stress: breakpoints
    for i in range(200 if not T else 3000):
        d = rng.choice([2, 2, 3, 3, 4, 5])
        kind = ['superdiag_int', 'superdiag', 'lowrank', 'superdiag_flat', 'gauss', 'superdiag_int_rot'][i % 6]
        if kind.startswith('superdiag'):
            n = rng.choice((3, 4)) if d <= 4 else 3
            N = [n] * d
            if i % 3 == 1 and d >= 3:
                # interior / boundary singleton modes between the real ones
                for _ in range(rng.randint(1, 2)):
                    N[rng.randrange(d)] = 1
                if sum(1 for m in N if m > 1) < 2:
                    N[0], N[-1] = n, n
        else:
            N = [rng.choice((2, 3, 4)) for _ in range(d)]
        c = {'gen': 'breakpoints', 'kind': kind, 'N': N, 'dtype': ['f64', 'f64', 'c128', 'f32'][i % 4] if kind != 'superdiag_int' else 'f64', 'source': 'torch',
             'shape': 'none', 'rmax': 'none', 'grid': 24 if not T else 48}
        if i % 5 == 3 and d <= 3:
            c['shape'] = 'operator'
            c['M'] = [rng.choice((1, 2)) for _ in N]
            c['N'] = [rng.choice((2, 3)) for _ in N]
        cs.append(c)
    # the classic exact-tie family: integer diagonal spectra, eps = p/q
    for (s, eps) in [((2, 2, 1), 1 / 3), ((4, 4, 2), 1 / 3), ((2, 1, 2), 1 / 3), ((6, 3, 2), 2 / 7), ((3, 4), 0.8), ((1, 1, 1, 1), 0.5), ((8, 4, 1), 1 / 9), ((12, 4, 3), 3 / 13)]:
        for form in ('matrix', 'operator'):
            cs.append({'gen': 'tie', 'spectrum': list(s), 'eps': eps, 'form': form})
    return cs


# ---------------------------------------------------------------------------------------------------------------------------

def make_input(case, g):
    dt = dn.dtype_of(case['dtype'])
    kind = case['kind']
    N = case['N']
    full_shape = (case['M'] + N) if case['shape'] == 'operator' else N
    modes = [m * n for m, n in zip(case['M'], N)] if case['shape'] == 'operator' else N
    d = len(modes)
    if kind == 'gauss':
        A = gens.values(modes, dt, 'gauss', g)
    elif kind == 'zero':
        A = torch.zeros(modes, dtype=dt)
    elif kind == 'single_long':
        # single precision and LONG unfoldings (16384 columns): first unfolding U diag(1, 1e-3, 1e-3, 1e-3) V^H - content far above eps = 1e-4 and above single-precision roundoff,
        # but below a "numerical rank" floor that scales with max(rows, cols) * machine eps
        up = dn.up(dt)
        r0, rest = modes[0], dn.prod(modes[1:])
        U = gens.orth(r0, g, up)[:, :4]
        Qv, _ = torch.linalg.qr(gens.values([rest, 4], up, 'gauss', g))
        sv = torch.tensor([1.0, 1e-3, 1e-3, 1e-3], dtype=torch.float64).to(up)
        A = ((U * sv) @ Qv.conj().T).reshape(modes).to(dt)
    elif kind == 'tall_deep':
        # A = U diag(s) V^H reshaped: the LAST unfolding is (prod of the leading modes) x m with singular values 1, 10^-k, ... down to ~1e-11
        m_ = modes[-1]
        rows = dn.prod(modes[:-1])
        up = dn.up(dt)
        U = gens.orth(rows, g, up)[:, :m_]
        V = gens.orth(m_, g, up)
        sv = torch.tensor([10.0 ** (-11.0 * j / max(m_ - 1, 1)) for j in range(m_)], dtype=torch.float64).to(up)
        A = ((U * sv) @ V.conj().T).reshape(modes).to(dt)
    elif kind == 'noisy':
        rs = case['rs']
        sig = dn.dense_of_cores(gens.make_cores(modes, [1] + [rs] * (d - 1) + [1], dn.up(dt), 'gauss', g))
        noise = gens.values(modes, dn.up(dt), 'gauss', g)
        rel = 3e-3 if dt != torch.float32 else 2e-2
        A = (sig + rel * dn.fro(sig) / dn.fro(noise) * noise).to(dt)
        case['_noise_rel'] = float(rel * dn.fro(sig) / dn.fro(A.to(dn.up(dt))))
    elif kind == 'lowrank':
        rr = random.Random(case['seed'])
        R = [1] + [rr.randint(1, 3) for _ in range(d - 1)] + [1]
        A = dn.dense_of_cores(gens.make_cores(modes, R, dt, 'gauss', g)).to(dt)
    elif kind == 'graded':
        rr = random.Random(case['seed'])
        R = [1] + [rr.randint(1, 3) for _ in range(d - 1)] + [1]
        scales = [10.0 ** rr.uniform(-4, 4) for _ in range(d)]
        A = dn.dense_of_cores(gens.make_cores(modes, R, dt, 'gauss', g, scales=scales)).to(dt)
    else:
        rr = random.Random(case['seed'])
        core_modes = [m for m in modes if m > 1] or [1]
        r = max(1, min(core_modes))
        if kind in ('superdiag_int', 'superdiag_int_rot'):
            s = sorted([float(rr.randint(1, 6)) for _ in range(r)], reverse=True)
        elif kind == 'superdiag_flat':
            big = rr.uniform(1, 3)
            s = sorted([big] + [rr.uniform(0.05, 0.3)] * (r - 1), reverse=True)
        else:
            q = rr.uniform(0.05, 0.7)
            s = [q ** j for j in range(r)]
        # the superdiagonal tensor lives on the modes larger than 1; singleton modes are inserted afterwards (the bonds next to them
        # see the same spectrum again, so every bond - also those adjacent to singleton modes - is driven to its truncation edge)
        A = gens.superdiag(core_modes, s, g, dtype=dn.up(dt), rotate=(kind not in ('superdiag_int',))).to(dt).reshape(modes)
    if case.get('scale'):
        A = A * case['scale']       # overall magnitude: the accuracy bound is relative, so it must hold at 1e-17 as at 1
    if case['shape'] == 'operator':
        # build the M+N array whose interleaved image is A: A has modes (m_k n_k)
        dd = len(N)
        inter = []
        for m, n in zip(case['M'], N):
            inter += [m, n]
        A = A.reshape(inter).permute([2 * i for i in range(dd)] + [2 * i + 1 for i in range(dd)]).contiguous()
    return A


def request(case, A):
    """constructor arguments and the mode sizes the unfoldings refer to"""
    if case['shape'] == 'operator':
        shape = [(m, n) for m, n in zip(case['M'], case['N'])]
        modes = [m * n for m, n in shape]
        src = A
    elif case['shape'] == 'tensor':
        shape = list(case['N'])
        modes = list(case['N'])
        src = A.reshape(-1) if len(case['N']) > 1 else A       # shape argument does the reshape
    else:
        shape, modes, src = None, list(case['N']), A
    return src, shape, modes


def observe(ctx, case, A, src, shape, modes, eps, rmax, label, caps_written=None):
    """One execution of the constructor under the oracle.  Returns the interior rank vector (or None)."""
    import torchtt
    dt = A.dtype
    d = len(modes)
    ctx.count('executions')
    kw = {'eps': eps}
    if shape is not None:
        kw['shape'] = shape
    if rmax is not None:
        kw['rmax'] = rmax
    # argument kinds the constructor accepts besides list / float / int: a tuple for a tensor shape, numpy scalars for eps and a scalar rmax
    akind = case.get('seed', 0) % 4
    if akind == 1 and shape is not None and case['shape'] == 'tensor':
        kw['shape'] = tuple(shape)
    if akind == 2:
        kw['eps'] = np.float64(eps)
        if isinstance(rmax, int):
            kw['rmax'] = np.int64(rmax)
    source = src.numpy() if case.get('source') == 'numpy' else src
    if case.get('source') == 'numpy' and case['shape'] == 'tensor' and d >= 2 and case.get('seed', 0) % 3 == 0:
        # a numpy source that is NOT C-contiguous and whose own shape groups the modes differently from the requested one: a 2-D Fortran-ordered array
        # (np.asfortranarray, or the transposed view of a C-ordered copy of the transpose); the requested shape regroups its LOGICAL (row-major) order
        k_ = 1 + case.get('seed', 0) // 3 % (d - 1)
        a2 = A.reshape(int(dn.prod(modes[:k_])), -1).numpy()
        source = np.asfortranarray(a2) if case.get('seed', 0) // 6 % 2 == 0 else np.ascontiguousarray(a2.T).T
        ctx.count('source:numpy-fortran-ordered-regrouped')
    kind = 'operator' if case['shape'] == 'operator' else 'tensor'
    key = 'svd/%s/%s' % (kind, 'order1' if d == 1 else 'order>=2')
    what = '%s TT(%s %s%s, eps=%r, rmax=%r) input=%s' % (label, case.get('source'), list(A.shape), (', shape=%s' % shape) if shape else '', eps, rmax, case['kind'])
    t = ctx.lib('TT(dense)', lambda s: torchtt.TT(s, **kw), source)
    if isinstance(t, Raised):
        ctx.viol(key + '/clause=raises:%s@%s' % (t.type, t.func), '%s raised %r' % (what, t))
        return None
    # (a) shape
    wantN = list(case['N'])
    gotN = [int(n) for n in t.N]
    if gotN != wantN or (kind == 'operator' and (not t.is_ttm or [int(m) for m in t.M] != list(case['M']))) or (kind == 'tensor' and t.is_ttm):
        ctx.viol(key + '/clause=shape', '%s: result %s' % (what, _sig(t)))
        return None
    try:
        got = dn.D(t)
    except ValueError as e:
        ctx.viol(key + '/clause=ill-formed-result', '%s: %s' % (what, e))
        return None
    R = [int(r) for r in t.R]
    # (d) boundary ranks
    if R[0] != 1 or R[-1] != 1 or len(R) != d + 1:
        ctx.viol(key + '/clause=boundary-ranks', '%s: R=%s' % (what, R))
    Aup = dn.to_up(A).reshape(got.shape)
    nrm = dn.fro(Aup)
    u = dn.ueps(dt)
    # (c) rank bounds
    caps = None
    if rmax is not None:
        caps = caps_written if caps_written is not None else (rmax if isinstance(rmax, list) else [1] + [rmax] * (d - 1) + [1])
        if any(R[k] > caps[k] for k in range(d + 1)):
            ctx.viol(key + '/clause=rank>rmax', '%s: R=%s caps=%s' % (what, R, caps))
    binding = caps is not None and any(R[k] >= caps[k] for k in range(1, d))
    eps_floor = 1e-3 if dt in (torch.float32, torch.complex64) else 1e-8
    Aint = dn.interleave_dense(Aup, len(case['N'])) if kind == 'operator' else Aup
    full_sizes = []
    left, tot = 1, dn.prod(modes)
    for k in range(d - 1):
        left *= modes[k]
        full_sizes.append(min(left, tot // left))
    if eps >= eps_floor and nrm > 0 and d > 1:
        exact = _unfolding_ranks(Aint, modes, 1e-5 if u > 1e-10 else 1e-10)
        if any(R[k + 1] > exact[k] for k in range(d - 1)):
            ctx.viol(key + '/clause=rank>exact-unfolding-rank', '%s: R=%s exact unfolding ranks %s' % (what, R, exact))
    # (b) accuracy
    err = dn.fro(got - Aup)
    allow = eps * nrm + 1e3 * u * nrm
    if not binding:
        if nrm > 0:
            ctx.metric('err_over_eps_norm', err / (eps * nrm))
            ctx.metric('err_over_allowance', err / allow)
        if not err <= allow:
            ctx.viol(key + '/clause=error>eps', '%s: ||D(t)-A||=%.6e > eps||A||=%.6e (ratio %.4f), R=%s' % (what, err, eps * nrm, err / (eps * nrm) if nrm > 0 else float('inf'), R))
    else:
        ctx.count('rmax_binding_executions')
    if any(c.dtype != dt for c in t.cores):
        ctx.viol(key + '/clause=dtype', '%s: core dtypes %s' % (what, [str(c.dtype) for c in t.cores]))
    if d > 1 and any(R[k + 1] < full_sizes[k] for k in range(d - 1)):
        ctx.count('truncating_executions')
        ctx.nontrivial((case['gen'], case['kind'], tuple(case['N']), tuple(case.get('M', ())), case['dtype'], case.get('source'), case['shape'], case.get('rmax'), tuple(R)))
    return tuple(R)


def _unfolding_ranks(A, modes, rtol):
    out = []
    left, tot = 1, dn.prod(modes)
    x = A.reshape(-1)
    for k in range(len(modes) - 1):
        left *= modes[k]
        m = x.reshape(left, tot // left)
        s = torch.linalg.svdvals(m)
        out.append(int((s > rtol * s[0]).sum()) if s.numel() and s[0] > 0 else 0)
    return out


def _sig(t):
    from ..hooks import signature
    return signature(t)


def run_case(case, ctx):
    g = gens.tgen(case['seed'])
    globals()['run_' + case['gen']](case, ctx, g)


def pick_rmax(case, modes, rr):
    d = len(modes)
    if case['rmax'] == 'int':
        ctx_r = rr.choice((1, 2, 3, 100))
        return ctx_r
    if case['rmax'] == 'list':
        return [1] + [rr.choice((1, 2, 3, 50)) for _ in range(d - 1)] + [1]
    return None


def run_random(case, ctx, g):
    A = make_input(case, g)
    src, shape, modes = request(case, A)
    rr = random.Random(case['seed'] + 1)
    rmax = pick_rmax(case, modes, rr)
    if case['kind'] == 'noisy':
        cap = case['rs'] + case['cap_extra']
        rmax = cap if case['rmax'] == 'int' else [1] + [cap] * (len(modes) - 1) + [1]
        case = dict(case, eps=case['eps_over_noise'] * case['_noise_rel'])
        ctx.count('structure:signal+flat-noise-tail')
    ctx.count('source:' + case['source'])
    ctx.count('shape:' + case['shape'])
    if rmax is not None:
        ctx.count('rmax:' + case['rmax'])
    if case.get('tall'):
        ctx.count('structure:tall-unfolding')
    if isinstance(rmax, list) and len(modes) > 1 and case['seed'] % 2 == 0:
        # the caller keeps ONE per-bond rmax list (and one shape list) and builds several objects with it: first from a rank-1 array of the same shape, then from A
        import torchtt
        wanted = list(rmax)
        vs = [gens.values([n], A.dtype, 'gauss', g) for n in A.shape]
        A1 = vs[0]
        for v in vs[1:]:
            A1 = torch.tensordot(A1, v, dims=0)
        kw = {'eps': case['eps'], 'rmax': rmax}
        if shape is not None:
            kw['shape'] = shape
        ctx.lib('TT(dense)', lambda a: torchtt.TT(a.numpy() if case.get('source') == 'numpy' else a, **kw), A1)
        ctx.count('rmax:list-reused-across-calls')
        observe(ctx, case, A, src, shape, modes, case['eps'], rmax, 'random(reused rmax list, written as %s)' % wanted, caps_written=wanted)
        return
    observe(ctx, case, A, src, shape, modes, case['eps'], rmax, 'random')


def run_breakpoints(case, ctx, g):
    A = make_input(case, g)
    src, shape, modes = request(case, A)
    ctx.count('source:' + case['source'])
    ctx.count('shape:' + case['shape'])
    grid = [10 ** (-9 + (9 - 0.02) * j / (case['grid'] - 1)) for j in range(case['grid'])]
    ranks = [observe(ctx, case, A, src, shape, modes, e, None, 'grid') for e in grid]
    for j in range(len(grid) - 1):
        if ranks[j] is None or ranks[j + 1] is None or ranks[j] == ranks[j + 1]:
            continue
        lo, hi, rlo = grid[j], grid[j + 1], ranks[j]
        for _ in range(70):
            mid = 0.5 * (lo + hi)
            if mid <= lo or mid >= hi:
                break
            r = observe(ctx, case, A, src, shape, modes, mid, None, 'bisect')
            if r is None:
                break
            if r == rlo:
                lo = mid
            else:
                hi = mid
        ctx.count('breakpoints_bisected')
        # the two adjacent floats around the breakpoint, and one ulp further on both sides
        for e in (math.nextafter(lo, 0.0), math.nextafter(hi, 1.0)):
            observe(ctx, case, A, src, shape, modes, e, None, 'edge')


def run_tie(case, ctx, g):
    """Exact threshold ties: diagonal matrices with integer singular values; the check scans eps over the floats
    adjacent to the nominal p/q so that the float-exact tie (if it exists) is executed."""
    s = case['spectrum']
    n = len(s)
    A = torch.diag(torch.tensor(s, dtype=torch.float64))
    c = {'gen': 'tie', 'kind': 'diag-int', 'N': [n, n], 'dtype': 'f64', 'source': 'torch', 'shape': 'none', 'rmax': 'none'}
    if case['form'] == 'operator':
        # a 1 x n / n x 1 operator pair: TT-matrix of order 2 whose single bond sees the same matrix
        c.update({'shape': 'operator', 'M': [n, 1], 'N': [1, n]})
        A4 = A.reshape(n, 1, 1, n)
        src, shape, modes = A4, [(n, 1), (1, n)], [n, n]
        Ain = A4
    else:
        src, shape, modes, Ain = A, None, [n, n], A
    ctx.count('shape:' + c['shape'])
    ctx.count('source:torch')
    eps = case['eps']
    cands = [eps]
    lo = hi = eps
    for _ in range(3):
        lo, hi = math.nextafter(lo, 0.0), math.nextafter(hi, 1.0)
        cands += [lo, hi]
    nrm = float(np.linalg.norm(np.array(s)))
    for e in cands:
        if (e * nrm) ** 2 == min(s) ** 2 or any((e * nrm) ** 2 == sum(x * x for x in sorted(s)[:k]) for k in range(1, n)):
            ctx.count('float_exact_ties_executed')
        observe(ctx, c, Ain, src, shape, modes, e, None, 'tie')
