"""C13 - elementwise division inverts elementwise multiplication."""
import math
import random
import torch

from .. import dense as dn
from .. import gens
from .. import hooks
from ..ctx import Raised

PROP = 'C13'
C_TOL = 100.0
RULE = ('cases = sequences of x/y and scalar/y by fresh same-shape divisors that are dropped in between; q = x/y, scalar/y and elementwise_divide(x,y,eps,...) for TT tensors of order 2..5, mode sizes 1..10 (dense size <= 2e4), ranks 1..4, divisors y = 1 + z*z with '
        'every entry certified in [1,2] (a few larger cases: [1,7.25]) on the dense array, optional preconditioner c, optional starting tensor, eps log-uniform in [1e-10,1e-3] for elementwise_divide, '
        'a few full-rank 10x10x10x10 quotients (divisor in [1,10], eps 1e-12/1e-11, optional nswp=40), k internal seeds per structure; plus x/scalar (power-of-two scalars, int-valued cores: bit-exact). Oracle: shape; ||D(q)*D(y) - D(x)|| <= 100*tol*||D(x)|| with tol = 1e-12 '
        '(operators, fixed setting) or eps (elementwise_divide). distinct = (form, structure, eps decade, options, seed index); non-trivial = non-zero numerator.')
ASSUMPTIONS = ['"within the solver tolerance" is fixed a priori as 100*tol (the AMEn residual is controlled per local problem; the constant absorbs sqrt(d) and the damping factor)',
               'divisor entries are certified in [1,2] by the harness; nothing is claimed for divisors with entries near zero']
REQUIRED_REACH = ['_division:amen_divide', '_tt_base:TT.__truediv__', '_tt_base:TT.__rtruediv__', '_extras:elementwise_divide']
REQUIRED_COUNTS = {'sequence_divisions': 20, 'form:x/y': 1, 'form:s/y': 1, 'form:elementwise_divide': 1, 'form:x/scalar': 1, 'opt:preconditioner-c': 1, 'divisor:rank-one': 5, 'opt:starting_tensor': 1, 'opt:starting_tensor(near-solution)': 5, 'executions': 100}
LINE_FUNCS = ['amen_divide', 'TT.__truediv__', 'TT.__rtruediv__']
CASE_TIMEOUT = {'quick': 300, 'thorough': 600}
MAX_TIMEOUT_FRACTION = 0.0


def cases(tier, seed):
    rng = random.Random('C13|%d' % seed)
    T = tier == 'thorough'
    cs = []
    nstruct = 300 if not T else 2500
    k = 2 if not T else 5
    for i in range(nstruct):
        d = rng.choice([2, 2, 3, 3, 4, 5])
        while True:
            N = [rng.randint(1, 10 if d <= 3 else 6) for _ in range(d)]
            if dn.prod(N) <= 20000 and max(N) > 1:
                break
        form = ['x/y', 's/y', 'elementwise_divide', 'elementwise_divide'][i % 4]
        base = {'gen': 'div', 'form': form, 'N': N, 'Rx': gens.rank_profile(rng, d, 'rand', 4), 'Rz': gens.rank_profile(rng, d, 'rand', 2), 'eps': 10 ** rng.uniform(-10, -3),
                'prec': 'c' if (i // 4) % 3 == 1 else None, 'start': (i // 4) % 2 == 1, 'scalar': rng.choice([1.0, 2, -3.5, 0.125]), 'vseed': rng.randrange(2 ** 40)}
        if i % 5 == 4:
            base['ykind'] = 'rank1'       # separable positive divisor (all TT ranks 1): y = y_1 x ... x y_d with every factor in [1, 2^(1/d)]
        for j in range(k):
            c = dict(base)
            c['sidx'] = j
            cs.append(c)
    # larger divisions: interior local systems above max_full (iterative branch) that do not converge in one Krylov cycle
    for i in range(3 if not T else 12):
        cs.append({'gen': 'div', 'form': ['x/y', 'elementwise_divide', 's/y'][i % 3], 'N': [8, 8, 8, 8] if i % 2 == 0 else [9, 8, 10], 'Rx': [1, 2, 2, 2, 1] if i % 2 == 0 else [1, 2, 2, 1],
                   'Rz': [1, 2, 2, 2, 1] if i % 2 == 0 else [1, 2, 2, 1], 'eps': 1e-10, 'prec': 'c' if i % 3 == 1 else None, 'start': False, 'scalar': 2.0, 'vseed': 4242 + i, 'sidx': 0, 'zrange': 2.5})
    # full-rank quotients: the middle bond of a 10x10x10x10 quotient has rank 90-100, which the rank-adaptive sweeps (+4 per sweep) reach only after ~25 sweeps
    for i in range(3 if not T else 10):
        cs.append({'gen': 'div', 'form': ['elementwise_divide', 'elementwise_divide', 'x/y'][i % 3], 'N': [[10, 10, 10, 10], [10, 9, 10, 10], [10, 10, 10, 9]][i % 3], 'Rx': [1, 2, 2, 2, 1],
                   'Rz': [1, 3, 3, 3, 1], 'eps': [1e-12, 1e-11][(i // 3) % 2], 'prec': 'c' if i % 6 == 4 else None, 'start': False, 'scalar': 2.0, 'vseed': 5151 + i, 'sidx': 0,
                   'nswp': [None, 40, None][i % 3], 'zrange': 3.0})
    # starting tensors that are GOOD BUT NOT GOOD ENOUGH: the exact quotient truncated at an accuracy between eps and sqrt(eps)
    for i in range(18 if not T else 150):
        d = rng.choice([2, 3, 4])
        N = [rng.randint(2, 6) for _ in range(d)]
        ga = [1e-4, 1e-6, 1e-7][i % 3]
        cs.append({'gen': 'div', 'form': 'elementwise_divide', 'N': N, 'Rx': gens.rank_profile(rng, d, 'rand', 3), 'Rz': gens.rank_profile(rng, d, 'rand', 2), 'eps': ga * ga * rng.choice((3.0, 30.0)),
                   'prec': 'c' if i % 4 == 1 else None, 'start': True, 'start_near': ga, 'scalar': 1.0, 'vseed': rng.randrange(2 ** 40), 'sidx': 0})
    # an interior singleton mode between two halves that each carry more than 50 entries (the bond left of the singleton mode can only grow through the enrichment)
    for i in range(2 if not T else 6):
        cs.append({'gen': 'div', 'form': ['x/y', 'elementwise_divide', 's/y'][i % 3], 'N': [[9, 9, 1, 9, 9], [8, 10, 1, 1, 9, 9]][i % 2], 'Rx': [[1, 2, 2, 2, 2, 1], [1, 2, 2, 2, 2, 2, 1]][i % 2],
                   'Rz': [[1, 3, 3, 3, 3, 1], [1, 3, 3, 3, 3, 3, 1]][i % 2], 'eps': 1e-12, 'prec': None, 'start': False, 'scalar': 2.0, 'vseed': 6161 + i, 'sidx': 0, 'zrange': 3.0})
    # small problems (fewer than 500 entries) with a WIDE divisor range [1, 101] and low-rank smooth-ish factors: quotients with a decaying spectrum at the default tolerance
    for i in range(24 if not T else 200):
        d = rng.choice([2, 3, 4])
        while True:
            N = [rng.randint(3, 10) for _ in range(d)]
            if dn.prod(N) < 500:
                break
        cs.append({'gen': 'div', 'form': ['x/y', 'elementwise_divide', 's/y'][i % 3], 'N': N, 'Rx': [1] + [2] * (d - 1) + [1], 'Rz': [1] + [2] * (d - 1) + [1], 'eps': 1e-12, 'prec': 'c' if i % 4 == 3 else None,
                   'start': False, 'scalar': 2.0, 'vseed': rng.randrange(2 ** 40), 'sidx': 0, 'zrange': 10.0, 'smooth': True})
    # degenerate but legitimate inputs: zero numerator (0/y, 0.0/y, zeros/y) and an all-zero starting tensor
    for i in range(12 if not T else 120):
        d = rng.choice([2, 3, 4])
        N = [rng.randint(2, 5) for _ in range(d)]
        cs.append({'gen': 'div', 'form': ['s/y', 'x/y', 'elementwise_divide', 'elementwise_divide'][i % 4], 'N': N, 'Rx': gens.rank_profile(rng, d, 'rand', 3), 'Rz': gens.rank_profile(rng, d, 'rand', 2),
                   'eps': 1e-8, 'prec': 'c' if i % 8 >= 4 else None, 'start': i % 4 == 3, 'scalar': [0, 0.0][i % 2], 'zero_num': i % 4 != 3, 'zero_start': i % 4 == 3,
                   'vseed': rng.randrange(2 ** 40), 'sidx': 0})
    for i in range(40 if not T else 400):
        # divisors that are not powers of two (compared at working precision), also as tensor scalars of ANOTHER dtype than the TT's
        d = rng.randint(1, 4)
        cs.append({'gen': 'scalar', 'N': [rng.choice((1, 2, 3, 4)) for _ in range(d)], 'R': gens.rank_profile(rng, d, 'rand', 3), 'scalar': rng.choice([3, 7, 10, 6, -3]),
                   'kind': ['py', 't0_f32', 't0_i64', 't1_i32', 't0'][i % 5], 'dtype': ['f64', 'c128', 'f64', 'f32'][i % 4], 'ttm': i % 6 == 5, 'vseed': rng.randrange(2 ** 40), 'inexact': True})
    for i in range(40 if not T else 400):
        d = rng.randint(1, 4)
        cs.append({'gen': 'scalar', 'N': [rng.choice((1, 2, 3, 4)) for _ in range(d)], 'R': gens.rank_profile(rng, d, 'rand', 3), 'scalar': rng.choice([2, 0.5, -4.0, 0.25, 8]),
                   'kind': ['py', 't0', 't1'][i % 3], 'dtype': ['f64', 'f32', 'c128'][i % 3], 'ttm': i % 5 == 4, 'vseed': rng.randrange(2 ** 40)})
    for i in range(30 if not T else 300):
        d = rng.randint(1, 4)
        cs.append({'gen': 'scalar', 'N': [rng.choice((1, 2, 3, 4)) for _ in range(d)], 'R': gens.rank_profile(rng, d, 'rand', 3), 'scalar': rng.choice([3, 7, 2, -4.0, 0.5, 2.5]),
                   'kind': 'py', 'dtype': 'i64', 'ttm': i % 5 == 4, 'vseed': rng.randrange(2 ** 40)})
    # sequences: several divisions in a row by FRESH divisors of one shape, each divisor dropped before the next is built (what a loop over cases does); every quotient
    # must belong to its own divisor - nothing keyed by a dead object's identity, shape or dtype may be reused
    for i in range(12 if not T else 100):
        d = rng.choice([2, 3])
        cs.append({'gen': 'seq', 'N': [rng.randint(3, 6) for _ in range(d)], 'Rz': gens.rank_profile(rng, d, 'rand', 2), 'n': 10, 'forms': ['s/y', 'mixed'][i % 2], 'vseed': rng.randrange(2 ** 40)})
    return cs


def run_seq(case, ctx, g):
    import gc
    import torchtt
    dt = torch.float64
    N = case['N']
    d = len(N)
    for j in range(case['n']):
        z = gens.make_tt(N, case['Rz'], dt, 'gauss', g)
        zmax = float(dn.D(z).abs().max())
        y = ctx.call('TT*TT+1', lambda a: (a * (1.0 / max(zmax, 1e-300))) * (a * (1.0 / max(zmax, 1e-300))) + 1.0, z)
        del z
        dy = dn.D(y)
        sc = [1.0, 2.0, -3.5, 1.0, 0.5, 2.0, 1.0, -1.0, 4.0, 1.0][j % 10]
        form = 's/y' if case['forms'] == 's/y' or j % 2 == 0 else 'x/y'
        if form == 's/y':
            num = torch.full(N, sc, dtype=dt)
            q = ctx.lib('scalar/TT', lambda b: sc / b, y)
        else:
            x = gens.make_tt(N, [1] + [2] * (d - 1) + [1], dt, 'gauss', g)
            num = dn.D(x)
            q = ctx.lib('TT/TT', lambda a, b: a / b, x, y)
            del x
        ctx.count('sequence_divisions')
        key = 'divide/sequence/%s' % form
        what = '%s, division %d of a sequence by fresh divisors of shape %s (earlier divisors dropped)' % (form, j + 1, N)
        if isinstance(q, Raised):
            ctx.viol(key + '/clause=raises:%s@%s' % (q.type, q.func), '%s raised %r' % (what, q))
            return
        if not isinstance(q, torchtt.TT) or [int(n) for n in q.N] != list(N):
            ctx.viol(key + '/clause=shape', '%s: result %s' % (what, hooks.signature(q)))
            return
        err = dn.fro(dn.D(q) * dy - num)
        ratio = err / (1e-12 * dn.fro(num))
        ctx.metric('residual_over_tol/sequence', ratio)
        if not ratio <= C_TOL:
            ctx.viol(key + '/clause=residual>100tol', '%s: ||q*y-x||/||x|| = %.3e = %.3g * tol' % (what, err / dn.fro(num), ratio))
        ctx.nontrivial(('seq', form, tuple(N), tuple(case['Rz']), j))
        del y, q, dy
        gc.collect()


def run_case(case, ctx):
    g = gens.tgen(case['vseed'])
    globals()['run_' + case['gen']](case, ctx, g)


def run_scalar(case, ctx, g):
    import torchtt
    if case['dtype'] == 'i64':
        return run_scalar_int(case, ctx, g)
    dt = dn.dtype_of(case['dtype'])
    x = gens.make_tt(case['N'], case['R'], dt, 'int', g, M=[n % 2 + 1 for n in case['N']] if case['ttm'] else None)
    s = case['scalar']
    sv = s if case['kind'] == 'py' else (torch.tensor(float(s), dtype=dt) if case['kind'] == 't0' else torch.tensor([float(s)], dtype=dt))
    if case['kind'] == 't0_f32':
        sv = torch.tensor(float(s), dtype=torch.float32)
    elif case['kind'] == 't0_i64':
        sv = torch.tensor(int(s))
    elif case['kind'] == 't1_i32':
        sv = torch.tensor([int(s)], dtype=torch.int32)
    ctx.count('form:x/scalar')
    key = 'x/scalar/%s' % case['kind']
    what = 'x/%r (%s) N=%s R=%s %s' % (s, case['kind'], case['N'], case['R'], case['dtype'])
    ref = dn.D(x) / s
    snap = hooks.Snap(x)
    q = ctx.lib('TT/scalar', lambda a: a / sv, x)
    bad, how = hooks.imm_diff(x, snap)
    if bad:
        ctx.viol(key + '/clause=operand-changed', '%s: %s %s' % (what, bad, how))
    if isinstance(q, Raised):
        ctx.viol(key + '/clause=raises:%s@%s' % (q.type, q.func), '%s raised %r' % (what, q))
        return
    if not isinstance(q, torchtt.TT):
        ctx.viol(key + '/clause=returns-non-TT', what)
        return
    if case.get('inexact'):
        ctx.count('form:x/scalar(not a power of two)')
        if any(c.dtype != dt for c in q.cores):
            ctx.viol(key + '/clause=dtype', '%s: result dtypes %s' % (what, sorted({str(c.dtype) for c in q.cores})))
        err, allow = dn.fro(dn.D(q) - ref), 1e3 * dn.ueps(dt) * dn.s_rep(x) / abs(s)
        if not err <= allow:
            ctx.viol(key + '/clause=value', '%s: ||q - x/s|| = %.3e > %.3e (working precision of %s)' % (what, err, allow, case['dtype']))
    elif not dn.bit_equal(dn.D(q), ref):
        ctx.viol(key + '/clause=value-exact', '%s: max diff %.3e' % (what, dn.max_abs_diff(dn.D(q), ref)))
    ctx.nontrivial(('scalar', tuple(case['N']), tuple(case['R']), s, case['kind'], case['dtype'], case['ttm']))


def run_scalar_int(case, ctx, g):
    """x / s for a TT whose cores hold INTEGERS (int64: what torchtt.meshgrid of torch.arange(...) hands out): true division, as for dense integer tensors - nothing is truncated."""
    import torchtt
    xf = gens.make_tt(case['N'], case['R'], torch.float64, 'int', g, M=[n % 2 + 1 for n in case['N']] if case['ttm'] else None)
    x = torchtt.TT([c.to(torch.int64) for c in xf.cores])
    s = case['scalar']
    ctx.count('form:x/scalar(integer cores)')
    key = 'x/scalar/integer-cores'
    what = 'x/%r N=%s R=%s int64 cores' % (s, case['N'], case['R'])
    ref = dn.D(xf) / s
    q = ctx.lib('TT/scalar', lambda a: a / s, x)
    if isinstance(q, Raised):
        ctx.count('x/scalar(integer cores)-raised:' + q.type)       # refusing integer objects would be a documented error, not a wrong value
        return
    if not isinstance(q, torchtt.TT):
        ctx.viol(key + '/clause=returns-non-TT', what)
        return
    try:
        dq = dn.D(q)
    except Exception as e:
        ctx.viol(key + '/clause=ill-formed-result', '%s: %s' % (what, e))
        return
    err, allow = dn.fro(dq.to(ref.dtype) - ref), 1e3 * 1.2e-7 * dn.s_rep(xf) / abs(s)      # the quotient of integers is computed in torch's default (single) precision
    if not err <= allow:
        ctx.viol(key + '/clause=value', '%s: ||q - x/s|| = %.3e > %.3e' % (what, err, allow))
    ctx.nontrivial(('scalar-int', tuple(case['N']), tuple(case['R']), s, case['ttm']))


def run_div(case, ctx, g):
    import torchtt
    dt = torch.float64
    N, form = case['N'], case['form']
    d = len(N)
    x = gens.make_tt(N, case['Rx'], dt, 'zero' if case.get('zero_num') else 'gauss', g)
    z = gens.make_tt(N, case['Rz'], dt, 'gauss', g)
    if case.get('smooth'):
        # smooth factors (low-degree polynomials of the index) instead of Gaussian noise: the quotient then has a fast-decaying spectrum
        def smooth_cores(R_):
            out = []
            for k_, n_ in enumerate(N):
                t_ = torch.linspace(0.0, 1.0, n_, dtype=dt)
                c_ = torch.stack([torch.stack([(0.3 + 0.7 * torch.rand(1, generator=g, dtype=dt)) * t_ ** ((a_ + b_ + k_) % 3) + 0.2 * torch.rand(1, generator=g, dtype=dt)
                                               for b_ in range(R_[k_ + 1])], dim=1) for a_ in range(R_[k_])], dim=0)
                out.append(c_.reshape(R_[k_], n_, R_[k_ + 1]) if c_.dim() == 3 and c_.shape[1] == n_ else c_.permute(0, 2, 1))
            return out
        z = torchtt.TT([c.permute(0, 2, 1) if c.shape[1] != n_ else c for c, n_ in zip(smooth_cores(case['Rz']), N)])
        x = torchtt.TT([c.permute(0, 2, 1) if c.shape[1] != n_ else c for c, n_ in zip(smooth_cores(case['Rx']), N)])
    zmax = float(dn.D(z).abs().max())
    zr = float(case.get('zrange', 1.0))      # |z| <= zrange: divisor entries in [1, 1 + zrange^2]
    z = ctx.call('TT*scalar', lambda a: a * (zr / max(zmax, 1e-300)), z)
    y = ctx.call('TT*TT+1', lambda a: a * a + 1.0, z)
    if case.get('ykind') == 'rank1':
        top = 2.0 ** (1.0 / d)
        y = ctx.call('rank1TT', lambda: torchtt.rank1TT([1.0 + (top - 1.0) * torch.rand(n, generator=g, dtype=dt) for n in N]))
        ctx.count('divisor:rank-one')
    # provenance of the operands: harness-built, or handed out by the library's own TT-SVD / rounding (numpy-integer rank lists, non-contiguous cores, another gauge)
    prov = ['built', 'built', 'TT-SVD', 'round'][case['vseed'] % 4] if dn.prod(N) <= 4000 else 'built'
    if prov == 'TT-SVD':
        x = ctx.call('TT(dense)', lambda a: torchtt.TT(a.full(), eps=1e-14), x)
        y = ctx.call('TT(dense)', lambda a: torchtt.TT(a.full(), eps=1e-14), y)
    elif prov == 'round':
        x = ctx.call('round', lambda a: a.round(1e-15), x)
        y = ctx.call('round', lambda a: a.round(1e-15), y)
    if not (isinstance(x, torchtt.TT) and isinstance(y, torchtt.TT)):
        return
    ctx.count('operand-provenance:' + prov)
    # magnitude of the numerator (the contract is relative to ||x||): a factor on ONE core, 1e-15 / 1e-16 / 1e12
    xmag = [1.0, 1.0, 1.0, 1e-15, 1e12, 1e-16][(case['vseed'] // 5) % 6]
    if xmag != 1.0 and not case.get('zero_num'):
        jx = (case['vseed'] // 11) % d
        x = torchtt.TT([c * xmag if k_ == jx else c for k_, c in enumerate(x.cores)])
    ctx.count('numerator-magnitude:%g' % xmag)
    dy = dn.D(y)
    if not (float(dy.min()) >= 1.0 - 1e-9 and float(dy.max()) <= 1.0 + zr * zr + 1e-9):
        ctx.count('rejected:divisor-not-in-[1,2]')
        return
    ctx.count('form:' + form)
    ctx.count('executions')
    start = None
    if form == 'x/y':
        num, tol = dn.D(x), 1e-12
        q = ctx.lib('TT/TT', lambda a, b: a / b, x, y)
        opts = ''
    elif form == 's/y':
        s = case['scalar']
        if s != 0:
            s = s * xmag          # 2e-15 / y, 1e12 / y ...
        num, tol = torch.full(N, float(s), dtype=torch.float64), 1e-12
        q = ctx.lib('scalar/TT', lambda b: s / b, y)
        opts = 's=%r' % s
    else:
        num, tol = dn.D(x), case['eps']
        kw = {'eps': tol}
        if case.get('nswp'):
            kw['nswp'] = case['nswp']
            ctx.count('opt:nswp')
        if case['prec']:
            kw['preconditioner'] = case['prec']
            ctx.count('opt:preconditioner-c')
        if case['start']:
            rr = random.Random(case['vseed'] + 3)
            start = gens.make_tt(N, [1] + [rr.randint(1, 3) for _ in N[1:]] + [1], dt, 'zero' if case.get('zero_start') else 'gauss', g)
            if case.get('start_near'):
                # dense quotient + a relative perturbation of the stated size, written as a TT by the library constructor (decided by C01)
                qd = dn.D(x) / dy
                pert = gens.values(N, dt, 'gauss', g)
                qd = qd + case['start_near'] * dn.fro(qd) / max(dn.fro(pert), 1e-300) * pert
                st = ctx.lib('TT(dense)', lambda t: torchtt.TT(t, eps=1e-14), qd)
                if isinstance(st, torchtt.TT):
                    start = st
                    ctx.count('opt:starting_tensor(near-solution)')
            kw['starting_tensor'] = start
            ctx.count('opt:starting_tensor')
            q = ctx.lib('elementwise_divide(start)', lambda a, b, c: torchtt.elementwise_divide(a, b, **dict(kw, starting_tensor=c)), x, y, start)
        else:
            q = ctx.lib('elementwise_divide', lambda a, b: torchtt.elementwise_divide(a, b, **kw), x, y)
        opts = 'eps=%.2e prec=%s start=%s%s' % (tol, case['prec'], case['start'], ' nswp=%d' % case['nswp'] if case.get('nswp') else '')
    key = 'divide/%s%s%s' % (form, '/prec=c' if (form == 'elementwise_divide' and case['prec']) else '', '/zero-numerator' if (case.get('zero_num') or (form == 's/y' and case['scalar'] == 0)) else ('/zero-start' if case.get('zero_start') else ''))
    what = '%s N=%s Rx=%s Ry=%s %s seed-index %d' % (form, N, case['Rx'], [int(r) for r in y.R], opts, case['sidx'])
    if isinstance(q, Raised):
        ctx.viol(key + '/clause=raises:%s@%s' % (q.type, q.func), '%s raised %r' % (what, q))
        return
    if not isinstance(q, torchtt.TT) or q.is_ttm or [int(n) for n in q.N] != list(N):
        ctx.viol(key + '/clause=shape', '%s: result %s' % (what, hooks.signature(q)))
        return
    try:
        dq = dn.D(q)
    except ValueError as e:
        ctx.viol(key + '/clause=ill-formed-result', '%s: %s' % (what, e))
        return
    nn = dn.fro(num)
    ctx.metric('max_quotient_rank', max(int(r) for r in q.R))
    err = dn.fro(dq * dy - num)
    ratio = err / (tol * nn) if nn > 0 else err / tol      # zero numerator: absolute
    ctx.metric('residual_over_tol/' + form, ratio)
    if not ratio <= C_TOL:
        ctx.viol(key + '/clause=residual>100tol', '%s: ||q*y-x||/||x|| = %.3e = %.3g * tol; result ranks %s' % (what, err / nn if nn else float('nan'), ratio, [int(r) for r in q.R]))
    if case.get('zero_num') or case.get('zero_start') or (form == 's/y' and case['scalar'] == 0):
        ctx.count('degenerate_zero_inputs')
    if nn > 0 or True:
        ctx.nontrivial((form, case.get('zero_num'), case.get('zero_start'), tuple(N), tuple(case['Rx']), tuple(case['Rz']), int(math.log10(tol)), case['prec'], case['start'], case['sidx']))
