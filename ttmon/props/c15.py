"""C15 - gradients through TT operations match the dense derivative."""
import random
import torch
import torch.nn.functional as F

from .. import dense as dn
from .. import gens
from ..ctx import Raised

PROP = 'C15'
RTOL = 1e-6
RULE = ('cases = random expression trees (depth 1..3) over the differentiable operations {full, +, -, *, broadcasting *, @ (A@x, x@A, A@B), scalar +,-,*,/ from both sides, unary -, kron, '
        'sum (all / subset), dot (full / partial), norm, norm squared, bilinear_form, slicing (ints, slices, None), apply_mask, cat, pad, diag (both directions), mprod, t()} on small '
        'operands (order 1..4, sizes<=3, ranks<=3; harness-made core lists, and in a third of the cases objects produced by the library itself: ones, zeros+c, randn, TT-SVD, clone, detach, round, slicing, rank1TT, eye, t()), with a seeded choice of which operands / which cores are tracked; gradients obtained through grad.grad, grad.grad_list (flat and all_in_one=False) and '
        'torch.autograd.grad. Reference = autograd derivative of the SAME expression evaluated on dense arrays contracted by the harness from leaf copies of the cores, cross-checked '
        'against a central finite difference of a random directional derivative (the two references must agree before a discrepancy is blamed on the library). Oracle: gradient not None for '
        'every tracked core that influences the value, shape of the core, relative error <= 1e-6; tracked cores still require grad and were not written in place. '
        'distinct = expression structure + operand structure + tracked set; non-trivial = non-zero reference gradient.')
ASSUMPTIONS = ['real float64 only (as the property states)', 'the TT layer is covered by C20 with the same oracle']
REQUIRED_REACH = ['grad:watch', 'grad:grad', 'grad:grad_list', '_tt_base:TT.norm', '_extras:dot', '_extras:bilinear_form', '_tt_base:TT.__getitem__', '_tt_base:TT.apply_mask', '_extras:cat',
                  '_extras:pad', '_extras:diag', '_tt_base:TT.mprod', '_tt_base:TT.__matmul__', '_tt_base:TT.sum', '_extras:kron', '_tt_base:TT.full']
REQUIRED_COUNTS = {'operands_from_library': 100, 'api:grad.grad': 1, 'api:grad.grad_list': 1, 'api:grad.grad_list(all_in_one=False)': 1, 'api:grad.grad_list(all_in_one=True)': 1, 'api:autograd.grad': 1, 'gradients_compared': 300, 'fd_crosschecks': 100}
LINE_FUNCS = ['grad', 'grad_list', 'watch']
T_OPS = ['add', 'sub', 'mul', 'smul', 'rsmul', 'sadd', 'rsub', 'sdiv', 'neg', 'matvec', 'vecmat', 'mprod', 'padslice', 'catslice', 'bcastmul', 'pos', 'tsadd', 'tsradd', 'tssub', 'tsmul', 'tsdiv', 'kronnone']
S_OPS = ['sum', 'sumk', 'dot', 'dotk', 'norm', 'norm2', 'bilinear', 'fullw', 'mask', 'item', 'slicesum', 'kronw', 'diagbil', 'opfull', 'optfull', 'opmatmul', 'diagop', 'noneslice']


def gen_T(rng, depth, d):
    if depth == 0 or rng.random() < 0.25:
        return ['leaf', rng.choice(['a', 'b', 'c'])]
    op = rng.choice(T_OPS)
    if op in ('add', 'sub', 'mul'):
        return [op, gen_T(rng, depth - 1, d), gen_T(rng, depth - 1, d)]
    if op in ('smul', 'rsmul', 'sadd', 'rsub', 'sdiv'):
        return [op, gen_T(rng, depth - 1, d), rng.choice([2.0, -0.5, 1.5, 3, 0, 0.0] if op in ('sadd', 'rsub') else [2.0, -0.5, 1.5, 3])]
    if op == 'mprod':
        return [op, gen_T(rng, depth - 1, d), rng.randrange(d)]
    if op == 'kronnone':
        return [op, gen_T(rng, depth - 1, d), rng.randrange(4)]
    if op == 'padslice':
        return [op, gen_T(rng, depth - 1, d), rng.randrange(0, d + 1)]
    if op in ('tsadd', 'tsradd', 'tssub', 'tsmul', 'tsdiv'):
        # TT combined with a scalar that itself depends on tracked cores (a 0-d tensor inside the autograd graph)
        sk = rng.choice(['sum', 'norm2', 'dot'])
        sn = [sk, gen_T(rng, 0, d)] if sk != 'dot' else [sk, gen_T(rng, 0, d), gen_T(rng, 0, d)]
        return [op, gen_T(rng, depth - 1, d), sn]
    if op == 'catslice':
        return [op, gen_T(rng, depth - 1, d), gen_T(rng, depth - 1, d), rng.randrange(d)]
    return [op, gen_T(rng, depth - 1, d)]


def gen_S(rng, depth, d):
    if depth >= 2 and rng.random() < 0.25:
        return [rng.choice(['splus', 'stimes']), gen_S(rng, depth - 1, d), gen_S(rng, depth - 1, d)]
    op = rng.choice(S_OPS)
    td = max(0, depth - 1)
    if op in ('dot', 'bilinear', 'kronw'):
        return [op, gen_T(rng, td, d), gen_T(rng, td, d)]
    if op in ('sumk', 'dotk'):
        axes = sorted(rng.sample(range(d), rng.randint(1, d)))
        return [op, gen_T(rng, td, d), axes]
    if op in ('opfull', 'optfull', 'opmatmul', 'diagop'):
        return [op]
    return [op, gen_T(rng, td, d)]


def cases(tier, seed):
    rng = random.Random('C15|%d' % seed)
    cs = []
    n = 3000 if tier == 'quick' else 40000
    for i in range(n):
        d = rng.choice([1, 2, 2, 3, 3, 4])
        N = [rng.choice((1, 2, 3)) for _ in range(d)]
        depth = rng.choice([1, 2, 2, 3])
        tracked = {}
        for name in ('a', 'b', 'c', 'A'):
            mode = rng.choice(['all', 'all', 'some', 'none'])
            if mode == 'all':
                tracked[name] = list(range(d))
            elif mode == 'some':
                tracked[name] = sorted(rng.sample(range(d), rng.randint(1, d)))
        if not tracked:
            tracked['a'] = list(range(d))
        expr = gen_S(rng, depth, d)
        if i % 40 == 7:
            # polynomial scalars of an argument that vanishes EXACTLY (a - a, b - (+b), (a+b) - (a+b); `0*a` is left out: the library documents that it returns constant zeros): the derivative is exactly zero there, not NaN
            inner = [['sub', ['leaf', 'a'], ['leaf', 'a']], ['sub', ['leaf', 'b'], ['pos', ['leaf', 'b']]], ['sub', ['add', ['leaf', 'a'], ['leaf', 'b']], ['add', ['leaf', 'a'], ['leaf', 'b']]]][(i // 40) % 3]
            expr = [['norm2', inner], ['dot', inner, ['leaf', 'c']], ['splus', ['norm2', inner], ['sum', ['leaf', 'a']]], ['sum', ['mul', inner, inner]]][(i // 120) % 4]
        cs.append({'gen': 'expr', 'N': N, 'R': {k: gens.rank_profile(rng, d, 'rand', 3) for k in 'abcA'}, 'expr': expr, 'tracked': tracked,
                   'api': ['grad.grad', 'grad.grad_list', 'autograd.grad'][i % 3]})
    return cs


# ---- two interpreters of the same expression --------------------------------------------------------------------------

class Env:
    pass


def eval_tt(node, E):
    import torchtt as tt
    op = node[0]
    T = lambda k: eval_tt(node[k], E)
    N, d = E.N, len(E.N)
    if op == 'leaf':
        return E.tt[node[1]]
    if op == 'add':
        return T(1) + T(2)
    if op == 'sub':
        return T(1) - T(2)
    if op == 'mul':
        return T(1) * T(2)
    if op == 'smul':
        return T(1) * node[2]
    if op == 'rsmul':
        return node[2] * T(1)
    if op == 'sadd':
        return T(1) + node[2]
    if op == 'rsub':
        return node[2] - T(1)
    if op == 'sdiv':
        return T(1) / node[2]
    if op == 'neg':
        return -T(1)
    if op == 'pos':
        return +T(1)
    if op == 'kronnone':
        # the documented neutral element: kron(None, x) = kron(x, None) = None ** x = x ** None = x (used to seed Kronecker chains)
        sub = T(1)
        return [lambda t: tt.kron(None, t), lambda t: tt.kron(t, None), lambda t: None ** t, lambda t: t ** None][node[2]](sub)
    if op == 'matvec':
        return E.tt['A'] @ T(1)
    if op == 'vecmat':
        return T(1) @ E.tt['A']
    if op == 'mprod':
        return T(1).mprod(E.Q[node[2]], node[2])
    if op == 'padslice':
        # padding on ALL modes, or (node[2] = k < d) on the last k modes only: the leading cores are then not padded
        kp = node[2] if len(node) > 2 and node[2] else d
        kp = min(max(kp, 1), d)
        p = tt.pad(T(1), tuple((1, 1) for _ in N[d - kp:]), 0.5)
        idx = tuple(slice(None) for _ in N[:d - kp]) + tuple(slice(1, 1 + n) for n in N[d - kp:])
        return p[idx] if d > 1 else p[idx[0]]
    if op == 'catslice':
        k = node[3]
        c = tt.cat((T(1), T(2)), k)
        idx = tuple(slice(0, N[i]) if i != k else slice(N[k] - 0, 2 * N[k]) for i in range(d))      # the second operand's block
        r = c[idx] if d > 1 else c[idx[0]]
        return r + T(1)
    if op == 'bcastmul':
        return T(1) * E.tt_v
    if op == 'tsadd':
        return T(1) + eval_tt(node[2], E)
    if op == 'tsradd':
        return eval_tt(node[2], E) + T(1)
    if op == 'tssub':
        return T(1) - eval_tt(node[2], E)
    if op == 'tsmul':
        return T(1) * (eval_tt(node[2], E) * 0.1 + 1.5)
    if op == 'tsdiv':
        return T(1) / (eval_tt(node[2], E) ** 2 + 2.0)
    # scalars
    if op == 'sum':
        return T(1).sum()
    if op == 'sumk':
        r = T(1).sum(list(node[2]))
        return r.sum() if isinstance(r, tt.TT) else r
    if op == 'dot':
        return tt.dot(T(1), T(2))
    if op == 'dotk':
        axes = list(node[2])
        r = tt.dot(T(1), E.tt_sub[tuple(axes)], axes)
        return r.sum() if isinstance(r, tt.TT) else r
    if op == 'norm':
        return T(1).norm()
    if op == 'norm2':
        return T(1).norm(True)
    if op == 'bilinear':
        return tt.bilinear_form(T(1), E.tt['A'], T(2))
    if op == 'fullw':
        return (T(1).full() * E.W).sum()
    if op == 'mask':
        return (T(1).apply_mask(E.I) * E.w).sum()
    if op == 'item':
        t = T(1)
        return t[tuple(E.item)] if d > 1 else t[E.item[0]]
    if op == 'slicesum':
        r = T(1)[E.sl] if d > 1 else T(1)[E.sl[0]]
        return r.sum() if isinstance(r, tt.TT) else r.sum()
    if op == 'noneslice':
        r = T(1)[E.sl_none]
        return (r.full() * E.Wn).sum() if isinstance(r, tt.TT) else r.sum()
    if op == 'kronw':
        kr = tt.kron(T(1), T(2)) if E.use_kron_fn else (T(1) ** T(2))
        return (kr.full() * E.W2).sum()
    if op == 'diagbil':
        return tt.bilinear_form(E.tt_u, tt.diag(T(1)), E.tt_u2)
    if op == 'opfull':
        A = E.tt['A']
        return ((A + A * 0.5 - 0.25 * A).full() * E.WA).sum() + (A * A).sum()
    if op == 'optfull':
        A = E.tt['A']
        return (A.t().full() * E.WA).sum() + A.norm(True)
    if op == 'opmatmul':
        A = E.tt['A']
        return ((A @ A.t()).full() * E.WA).sum() + (A @ E.Xd).sum()
    if op == 'diagop':
        return (tt.diag(E.tt['A']).full() * E.W).sum()
    if op == 'splus':
        return eval_tt(node[1], E) + eval_tt(node[2], E)
    if op == 'stimes':
        return eval_tt(node[1], E) * eval_tt(node[2], E)
    raise AssertionError(op)


def eval_dense(node, E):
    """Dense mirror of eval_tt.  With E.absmode the same expression is evaluated WITHOUT cancellation (all leaves and constants replaced by
    their absolute values by the caller, subtraction turned into addition): an upper bound on the size of every intermediate term, which
    is what roundoff is relative to."""
    op = node[0]
    T = lambda k: eval_dense(node[k], E)
    N, d = E.N, len(E.N)
    ab = getattr(E, 'absmode', False)
    if op == 'leaf':
        return E.dn[node[1]]
    if op == 'add':
        return T(1) + T(2)
    if op == 'sub':
        return T(1) + T(2) if ab else T(1) - T(2)
    if op == 'mul':
        return T(1) * T(2)
    if op in ('smul', 'rsmul'):
        return T(1) * (abs(node[2]) if ab else node[2])
    if op == 'sadd':
        return T(1) + (abs(node[2]) if ab else node[2])
    if op == 'rsub':
        return abs(node[2]) + T(1) if ab else node[2] - T(1)
    if op == 'sdiv':
        return T(1) / (abs(node[2]) if ab else node[2])
    if op == 'neg':
        return T(1) if ab else -T(1)
    if op in ('pos', 'kronnone'):
        return T(1)
    if op == 'matvec':
        return torch.tensordot(E.dn['A'], T(1), dims=d)
    if op == 'vecmat':
        return torch.tensordot(T(1), E.dn['A'], dims=d)
    if op == 'mprod':
        k = node[2]
        return torch.tensordot(T(1), E.Q[k], dims=([k], [1])).movedim(-1, k)
    if op == 'padslice':
        return T(1) + 1.0 if ab else T(1)      # the library forms x + 0.5 - 0.5 inside the block
    if op == 'catslice':
        return T(2) + T(1)
    if op == 'bcastmul':
        return T(1) * E.dn_v
    if op in ('tsadd', 'tsradd'):
        return T(1) + eval_dense(node[2], E)
    if op == 'tssub':
        return T(1) + eval_dense(node[2], E) if ab else T(1) - eval_dense(node[2], E)
    if op == 'tsmul':
        return T(1) * (eval_dense(node[2], E) * 0.1 + 1.5)
    if op == 'tsdiv':
        return T(1) / 2.0 * (1.0 + eval_dense(node[2], E) ** 2) if ab else T(1) / (eval_dense(node[2], E) ** 2 + 2.0)
    if op == 'sum':
        return T(1).sum()
    if op == 'sumk':
        return T(1).sum()
    if op == 'dot':
        return (T(1) * T(2)).sum()
    if op == 'dotk':
        axes = list(node[2])
        return torch.tensordot(T(1), E.dn_sub[tuple(axes)], dims=(axes, list(range(len(axes))))).sum()
    if op == 'norm':
        return torch.sqrt((T(1) ** 2).sum())
    if op == 'norm2':
        return (T(1) ** 2).sum()
    if op == 'bilinear':
        return torch.tensordot(T(1), torch.tensordot(E.dn['A'], T(2), dims=d), dims=d)
    if op == 'fullw':
        return (T(1) * E.W).sum()
    if op == 'mask':
        t = T(1)
        return (t[tuple(E.I[:, k] for k in range(d))] * E.w).sum()
    if op == 'item':
        return T(1)[tuple(E.item)]
    if op == 'slicesum':
        return T(1)[E.sl].sum()
    if op == 'noneslice':
        return (T(1)[E.sl_none] * E.Wn).sum()
    if op == 'kronw':
        return (torch.tensordot(T(1), T(2), dims=0) * E.W2).sum()
    if op == 'diagbil':
        return (E.dn_u * T(1) * E.dn_u2).sum()
    if op == 'opfull':
        A = E.dn['A']
        return ((A + A * 0.5 + 0.25 * A) * E.WA).sum() + (A * A).sum() if ab else ((A + A * 0.5 - 0.25 * A) * E.WA).sum() + (A * A).sum()
    if op == 'optfull':
        A = E.dn['A']
        return (A.permute(list(range(d, 2 * d)) + list(range(d))) * E.WA).sum() + (A ** 2).sum()
    if op == 'opmatmul':
        A = E.dn['A']
        At = A.permute(list(range(d, 2 * d)) + list(range(d)))
        nb = E.Xd.dim() - d
        return (torch.tensordot(A, At, dims=d) * E.WA).sum() + torch.tensordot(E.Xd, A, dims=(list(range(nb, nb + d)), list(range(d, 2 * d)))).sum()
    if op == 'diagop':
        A = E.dn['A']
        t = A
        for k in range(d):
            t = torch.diagonal(t, dim1=0, dim2=d - k)
        return (t * E.W).sum()
    if op == 'splus':
        return eval_dense(node[1], E) + eval_dense(node[2], E)
    if op == 'stimes':
        return eval_dense(node[1], E) * eval_dense(node[2], E)
    raise AssertionError(op)


def contract(cores):
    """differentiable dense value of a list of cores (harness's own contraction)"""
    t = cores[0].reshape(-1, cores[0].shape[-1])
    for c in cores[1:]:
        t = (t @ c.reshape(c.shape[0], -1)).reshape(-1, c.shape[-1])
    if cores[0].dim() == 3:
        return t.reshape([c.shape[1] for c in cores])
    d = len(cores)
    inter = []
    for c in cores:
        inter += [c.shape[1], c.shape[2]]
    return t.reshape(inter).permute([2 * i for i in range(d)] + [2 * i + 1 for i in range(d)])


def uses(node, name):
    if node[0] == 'leaf':
        return node[1] == name
    if name == 'A' and node[0] in ('matvec', 'vecmat', 'bilinear', 'opfull', 'optfull', 'opmatmul', 'diagop'):
        return True
    return any(uses(ch, name) for ch in node[1:] if isinstance(ch, list) and ch and isinstance(ch[0], str))


def run_case(case, ctx):
    import torchtt
    g = gens.tgen(case['seed'])
    rr = random.Random(case['seed'])
    dt = torch.float64
    N = case['N']
    d = len(N)
    E = Env()
    E.N = N
    cores = {k: gens.make_cores(N, case['R'][k], dt, 'gauss', g, M=N if k == 'A' else None) for k in 'abcA'}
    # operand magnitude: 0.7 per core, or an overall factor 1e-3 / 1e-5 / 1e2 on the first core (absolute stabilisers show on small operands)
    mag = [1.0, 1.0, 1.0, 1e-3, 1e-5, 1e2][case['seed'] % 6]
    cores = {k: [c * 0.7 * (mag if j == 0 else 1.0) for j, c in enumerate(v)] for k, v in cores.items()}
    ctx.count('magnitude:%g' % mag)
    E.tt = {k: torchtt.TT([c.clone() for c in v]) for k, v in cores.items()}
    # operand provenance: every third case takes operands from the library's own factories / copy routines instead of a harness-made core list
    # (cores of one object that alias each other, or an earlier object, are indistinguishable by value but not by derivative)
    if (case['seed'] // 6) % 3 == 0:
        srcs = {'a': rr.choice(['ones', 'randn', 'svd', 'clone', 'detach', 'round', 'zeros+', 'rank1', 'slice']), 'A': rr.choice(['eye', 'ones_ttm', 'randn_ttm', 't', 'clone', 'rank1ttm'])}
        for k2, src in srcs.items():
            old = E.tt[k2]

            def make(src=src, old=old, k2=k2):
                if src == 'ones':
                    return torchtt.ones(N, dtype=dt)
                if src == 'zeros+':
                    return torchtt.zeros(N, dtype=dt) + 0.5
                if src == 'randn':
                    return torchtt.randn(N, list(case['R'][k2]), dtype=dt)
                if src == 'svd':
                    return torchtt.TT(old.full(), eps=1e-14)
                if src == 'clone':
                    return old.clone()
                if src == 'detach':
                    return old.detach()
                if src == 'round':
                    return old.round(1e-15)
                if src == 'rank1':
                    return torchtt.rank1TT([torch.ones(n, dtype=dt) * 0.8 for n in N])
                if src == 'slice':
                    return old[tuple(slice(None) for _ in N)]
                if src == 'eye':
                    return torchtt.eye(N, dtype=dt)
                if src == 'ones_ttm':
                    return torchtt.ones([(n, n) for n in N], dtype=dt)
                if src == 'randn_ttm':
                    return torchtt.randn([(n, n) for n in N], list(case['R'][k2]), dtype=dt)
                if src == 't':
                    return old.t()
                if src == 'rank1ttm':
                    return torchtt.rank1TT([torch.eye(n, dtype=dt) * 0.9 for n in N])
            obj = ctx.lib('factory:' + src, make)
            if isinstance(obj, Raised) or not isinstance(obj, torchtt.TT) or list(obj.N) != list(N) or any(c.requires_grad for c in obj.cores):
                continue
            ctx.count('operand-from-library:' + src)
            ctx.count('operands_from_library')
            E.tt[k2] = obj
            cores[k2] = [c.detach().clone() for c in obj.cores]
    leaf = {k: [c.clone().requires_grad_(True) for c in v] for k, v in cores.items()}
    E.dn = {k: contract(v) for k, v in leaf.items()}
    # untracked constants
    E.Q = [gens.values([n, n], dt, 'gauss', g) for n in N]
    E.W = gens.values(N, dt, 'gauss', g)
    E.W2 = gens.values(N + N, dt, 'gauss', g)
    E.WA = gens.values(N + N, dt, 'gauss', g)
    E.Xd = gens.values([2] + N, dt, 'gauss', g)
    E.I = torch.stack([torch.randint(0, n, (4,), generator=g) for n in N], dim=1)
    E.w = gens.values([4], dt, 'gauss', g)
    E.item = [rr.randrange(-n, n) for n in N]
    E.sl = tuple(rr.choice([slice(None), slice(0, 1), rr.randrange(n), slice(None, None, 2)]) for n in N)
    if all(isinstance(s, int) for s in E.sl):
        E.sl = E.sl[:-1] + (slice(None),)
    sn = []
    for n in N:
        if rr.random() < 0.4:
            sn.append(None)
        sn.append(rr.choice([slice(None), slice(0, 1)]))
    E.sl_none = tuple(sn)
    E.Wn = gens.values(list(torch.zeros(N)[E.sl_none].shape), dt, 'gauss', g)
    E.use_kron_fn = rr.random() < 0.5
    k = rr.randint(1, d)
    Nv = [n if rr.random() < 0.6 else 1 for n in N[d - k:]]
    vc = gens.make_cores(Nv, [1] + [rr.randint(1, 2) for _ in Nv[1:]] + [1], dt, 'gauss', g)
    E.tt_v, E.dn_v = torchtt.TT(vc), dn.dense_of_cores(vc)
    uc, u2c = gens.make_cores(N, [1] * (d + 1), dt, 'gauss', g), gens.make_cores(N, [1] + [2] * (d - 1) + [1], dt, 'gauss', g)
    E.tt_u, E.dn_u, E.tt_u2, E.dn_u2 = torchtt.TT(uc), dn.dense_of_cores(uc), torchtt.TT(u2c), dn.dense_of_cores(u2c)
    E.tt_sub, E.dn_sub = {}, {}

    def collect(node):
        if node[0] == 'dotk':
            axes = tuple(node[2])
            if axes not in E.tt_sub:
                sc = gens.make_cores([N[i] for i in axes], [1] + [rr.randint(1, 2) for _ in axes[1:]] + [1], dt, 'gauss', g)
                E.tt_sub[axes], E.dn_sub[axes] = torchtt.TT(sc), dn.dense_of_cores(sc)
        for ch in node[1:]:
            if isinstance(ch, list) and ch and isinstance(ch[0], str):
                collect(ch)
    collect(case['expr'])
    tracked = {k: v for k, v in case['tracked'].items()}
    api = case['api']
    ctx.count('api:' + api)
    what = 'expr=%s N=%s tracked=%s api=%s' % (case['expr'], N, tracked, api)
    # watch
    for name, idxs in tracked.items():
        full = idxs == list(range(d))
        mode = case['seed'] % 3
        if not full and len(idxs) >= 2 and mode == 0:
            # the cores are named in two successive calls: tracking accumulates (watch never un-tracks)
            h = len(idxs) // 2
            ctx.count('watch:two-successive-subsets')
            r = ctx.lib('grad.watch', lambda t: torchtt.grad.watch(t, list(idxs[:h])), E.tt[name], inplace=(E.tt[name],))
            if not isinstance(r, Raised):
                r = ctx.lib('grad.watch', lambda t: torchtt.grad.watch(t, list(idxs[h:])), E.tt[name], inplace=(E.tt[name],))
        elif full and d >= 2 and mode == 1:
            ctx.count('watch:all-then-a-subset-again')
            r = ctx.lib('grad.watch', lambda t: torchtt.grad.watch(t), E.tt[name], inplace=(E.tt[name],))
            if not isinstance(r, Raised):
                r = ctx.lib('grad.watch', lambda t: torchtt.grad.watch(t, [case['seed'] // 3 % d]), E.tt[name], inplace=(E.tt[name],))
        else:
            r = ctx.lib('grad.watch', (lambda t: torchtt.grad.watch(t)) if full else (lambda t: torchtt.grad.watch(t, list(idxs))), E.tt[name], inplace=(E.tt[name],))
        if isinstance(r, Raised):
            ctx.viol('watch/clause=raises:%s' % r.type, '%s: %r' % (what, r))
            return
    versions = {name: [c._version for c in E.tt[name].cores] for name in tracked}
    val = ctx.lib('expression', lambda *ops: eval_tt(case['expr'], E), *[E.tt[k] for k in 'abcA'])
    if isinstance(val, Raised):
        ctx.viol('expr/%s/clause=raises:%s@%s' % (_top(case['expr']), val.type, val.func), '%s raised %r' % (what, val))
        return
    if not torch.is_tensor(val):
        val = torch.as_tensor(val, dtype=dt)
    if val.numel() != 1:
        ctx.viol('expr/%s/clause=value-is-not-a-scalar' % _top(case['expr']), '%s: the scalar expression evaluated to a tensor of shape %s' % (what, list(val.shape)))
        return
    val = val.reshape(())
    ref = eval_dense(case['expr'], E)
    # roundoff is relative to the size of the terms that are added up, not to the (possibly cancelling) result: evaluate the same dense
    # expression without cancellation (absolute values everywhere, '-' -> '+') to get that size and its derivative w.r.t. every leaf
    EA = Env()
    EA.__dict__.update(E.__dict__)
    EA.absmode = True
    aleaf = {k2: [c.detach().abs().clone().requires_grad_(True) for c in v] for k2, v in leaf.items()}
    EA.dn = {k2: contract(v) for k2, v in aleaf.items()}
    for nm in ('W', 'W2', 'WA', 'Xd', 'w', 'Wn', 'dn_v', 'dn_u', 'dn_u2'):
        setattr(EA, nm, getattr(E, nm).abs())
    EA.Q = [q.abs() for q in E.Q]
    EA.dn_sub = {k2: v.abs() for k2, v in E.dn_sub.items()}
    S_abs = eval_dense(case['expr'], EA)
    U = 2.3e-16
    # value agreement first (a wrong value makes the gradient comparison meaningless); sqrt-type nodes amplify roundoff near zero
    # (the norm of an exactly cancelling tensor is sqrt(roundoff)), hence the additional sqrt term
    vfloor = 1e4 * U * float(S_abs.detach()) + (1e-7 * float(S_abs.detach()) if _has_sqrt(case['expr']) else 0.0)
    if not abs(float(val.detach()) - float(ref.detach())) <= 1e-6 * abs(float(ref.detach())) + vfloor:
        ctx.viol('expr/%s/clause=value' % _top(case['expr']), '%s: TT value %r, dense value %r' % (what, float(val.detach()), float(ref.detach())))
        return
    names = [k for k in 'abcA' if k in tracked]
    wanted = [(nme, i) for nme in names for i in tracked[nme]]
    if not val.requires_grad:
        if any(uses(case['expr'], nme) for nme in names):
            ctx.viol('grad/clause=value-detached', '%s: the value does not require grad although tracked operands are used' % what)
        return
    if api == 'grad.grad':
        # one tensor per call is the documented use; call it for the first tracked operand, read the others from .grad
        first = names[0]
        full = tracked[first] == list(range(d))
        # core_indices are python indices into the core list: any order, negative values and repetitions are answered position by position
        req = list(tracked[first])
        rmode = case['seed'] % 4
        if rmode == 1 and len(req) >= 2:
            req = req[::-1]
        elif rmode == 2:
            req = [i_ - d if (j_ % 2 == 0) else i_ for j_, i_ in enumerate(req)]
        elif rmode == 3:
            req = req + req[:1]
        if rmode in (1, 2, 3) and req != list(tracked[first]):
            ctx.count('grad.grad/core_indices-not-ascending-or-negative-or-repeated')
            full = False
        out = ctx.lib('grad.grad', (lambda v, t: torchtt.grad.grad(v, t)) if full else (lambda v, t: torchtt.grad.grad(v, t, list(req))), val, E.tt[first])
        if isinstance(out, Raised):
            ctx.viol('grad.grad/clause=raises:%s' % out.type, '%s: %r' % (what, out))
            return
        if len(out) != (d if full else len(req)):
            ctx.viol('grad.grad/clause=length', '%s: %d gradients for the %d requested cores %s' % (what, len(out), len(req), req))
            return
        got = {}
        for j, i in enumerate(list(range(d)) if full else req):
            i_ = i % d
            if (first, i_) in got and out[j] is not None and got[(first, i_)] is not None and not torch.equal(out[j], got[(first, i_)]):
                ctx.viol('grad.grad/clause=repeated-index-answered-differently', '%s: core_indices=%s' % (what, req))
            if i_ in tracked[first]:
                got[(first, i_)] = out[j]
        for nme in names[1:]:
            for i in tracked[nme]:
                got[(nme, i)] = E.tt[nme].cores[i].grad
    elif api == 'grad.grad_list':
        fulls = [nme for nme in names if tracked[nme] == list(range(d))]
        if not fulls:
            fulls = []
        nested = (case['seed'] // 7) % 2 == 1      # all_in_one=False: a list of per-tensor lists
        ctx.count('api:grad.grad_list(all_in_one=%s)' % (not nested))
        if nested:
            out = ctx.lib('grad.grad_list', lambda v, *ts: torchtt.grad.grad_list(v, list(ts), all_in_one=False), val, *[E.tt[nme] for nme in names])
        else:
            out = ctx.lib('grad.grad_list', lambda v, *ts: torchtt.grad.grad_list(v, list(ts)), val, *[E.tt[nme] for nme in names])
        if isinstance(out, Raised):
            ctx.viol('grad.grad_list/clause=raises:%s' % out.type, '%s: %r' % (what, out))
            return
        if nested:
            if not isinstance(out, list) or len(out) != len(names) or any(not isinstance(o, list) or len(o) != d for o in out):
                ctx.viol('grad.grad_list/clause=length', '%s: all_in_one=False returned %s for %d tensors of %d cores' % (
                    what, [len(o) if isinstance(o, list) else type(o).__name__ for o in out] if isinstance(out, list) else type(out).__name__, len(names), d))
                return
            out = [g_ for o in out for g_ in o]
        if len(out) != d * len(names):
            ctx.viol('grad.grad_list/clause=length', '%s: %d entries for %d tensors of %d cores' % (what, len(out), len(names), d))
            return
        got = {}
        for j, nme in enumerate(names):
            for i in tracked[nme]:
                got[(nme, i)] = out[j * d + i]
    else:
        params = [E.tt[nme].cores[i] for (nme, i) in wanted]
        out = torch.autograd.grad(val, params, allow_unused=True)
        got = {w: o for w, o in zip(wanted, out)}
    # reference gradients + finite-difference cross-check of the reference
    rparams = [leaf[nme][i] for (nme, i) in wanted]
    rgrads = torch.autograd.grad(ref, rparams, allow_unused=True)
    if any(gr is not None and not bool(torch.isfinite(gr).all()) for gr in rgrads):
        ctx.count('reference_not_differentiable_here(skipped)')      # e.g. the norm of an exactly zero tensor
        return
    direction = [gens.values(list(p.shape), dt, 'gauss', g) for p in rparams]
    dd = sum(float((gr * di).sum()) for gr, di in zip(rgrads, direction) if gr is not None)
    h = 1e-6

    def shifted(sign):
        lf = {k2: [c.detach().clone() for c in v] for k2, v in leaf.items()}
        for (nme, i), di in zip(wanted, direction):
            lf[nme][i] = lf[nme][i] + sign * h * di
        E2 = Env()
        E2.__dict__.update(E.__dict__)
        E2.dn = {k2: contract(v) for k2, v in lf.items()}
        return float(eval_dense(case['expr'], E2))
    fd = (shifted(+1) - shifted(-1)) / (2 * h)
    ctx.count('fd_crosschecks')
    scale = max(abs(dd), abs(fd), 1e-8)
    if abs(fd - dd) > 1e-5 * scale + 1e-7:
        ctx.count('reference_disagreement(skipped)')
        return
    agrads = torch.autograd.grad(S_abs, [aleaf[nme][i] for (nme, i) in wanted], allow_unused=True) if S_abs.requires_grad else [None] * len(wanted)
    gfloor = {w_: (1e4 * U * dn.fro(ag) if ag is not None else 0.0) for w_, ag in zip(wanted, agrads)}
    sq = _has_sqrt(case['expr'])
    nz = False
    for (nme, i), gr in zip(wanted, rgrads):
        gg = got.get((nme, i))
        key = 'grad/%s/%s' % (api, 'operator-core' if nme == 'A' else 'tensor-core')
        influences = gr is not None and float(gr.abs().max()) > 0
        ctx.count('gradients_compared')
        if gg is None:
            if influences:
                ctx.viol(key + '/clause=grad-is-None', '%s: gradient of core %d of %s is None but the dense derivative is non-zero (||g||=%.3e)' % (what, i, nme, dn.fro(gr)))
            continue
        core = E.tt[nme].cores[i]
        if tuple(gg.shape) != tuple(core.shape):
            ctx.viol(key + '/clause=grad-shape', '%s: gradient of core %d of %s has shape %s, core %s' % (what, i, nme, list(gg.shape), list(core.shape)))
            continue
        gref = gr if gr is not None else torch.zeros_like(gg)
        err = dn.fro(gg - gref)
        sc = max(dn.fro(gref), 1e-12)
        ctx.metric('grad_rel_err', err / sc if influences else 0.0)
        if sq and not dn.fro(gref) > 1e-3 * (gfloor[(nme, i)] / (1e4 * U) if gfloor[(nme, i)] else 0.0):
            continue        # gradient through a sqrt whose argument (nearly) cancels: not differentiable in floating point
        if not err <= RTOL * sc + gfloor[(nme, i)]:        # written so that a NaN derivative fails the comparison
            ctx.viol(key + '/clause=grad-value', '%s: core %d of %s: ||g-gref||=%.3e, ||gref||=%.3e' % (what, i, nme, err, sc))
        if influences:
            nz = True
    for nme in names:
        for j, c in enumerate(E.tt[nme].cores):
            if j in tracked[nme] and (not c.requires_grad or c._version != versions[nme][j]):
                ctx.viol('tracked-core/clause=%s' % ('lost-requires_grad' if not c.requires_grad else 'written-in-place'), '%s: core %d of %s' % (what, j, nme))
    if nz:
        ctx.nontrivial((str(case['expr']), tuple(N), str(sorted(tracked.items())), api))


def _has_sqrt(node):
    return node[0] == 'norm' or any(_has_sqrt(ch) for ch in node[1:] if isinstance(ch, list) and ch and isinstance(ch[0], str))


def _top(node):
    return node[0]
