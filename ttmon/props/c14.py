"""C14 - cross approximation recovers low-rank data and samples only valid indices."""
import math
import random
import torch

from .. import dense as dn
from .. import gens
from .. import hooks
from ..ctx import Raised

PROP = 'C14'
C_EPS = 10.0
RULE = ('cases = dmrg_cross(f,N,eps) and function_interpolate(f,x,eps) (one argument tensor; a list of d meshgrid tensors, or of d other rank-one int-valued tensors from which the multi-index is decodable - s_j*X_j and 2^{i_j}*3^{i_{j+1}}; in a third of the accurate function_interpolate cases a SECOND call on the same argument object follows after one of its modes was reversed in place (set_core / raw write): it must return the reversed table; a list of d coupled tensors x_j = X_j + n_j X_{j+1} that each vary along two modes) on targets with exact TT ranks 1..4 (dense image of '
        'a random TT; the function is a table lookup) and smooth targets 1/(2+sum i) (fast-decaying ranks); order 2..5, mode sizes 2..20 incl. non-uniform and smaller than '
        'rank+kick (the wide-QR regime), dense size <= 5e4, eps log-uniform in [1e-10,1e-3], k internal seeds, optional start tensor, default sweep budgets. Two monitors: '
        '(1) CALLBACK RECORDER: every argument handed to the user function is checked online - dmrg_cross: int64 2-d tensor with exactly d columns, column k in [0,N[k]); '
        'function_interpolate: float values each equal to an actual entry of the (int-valued) argument tensor, rows equal to an actual tuple of entries for the multivariate form; '
        '(2) RESULT ORACLE: shape N; ||D(result) - T|| <= 10*eps*||T|| + 1e3*u*||T||. distinct = (routine, target class, structure, eps decade, start, seed index); non-trivial = callback invoked and non-zero target.')
ASSUMPTIONS = ['"a small multiple of eps" fixed a priori as 10*eps', 'argument tensors of function_interpolate are int-valued (xfun index tensor / integer meshgrids) so that "is an actual entry" is an exact membership test',
               'the multivariate form is used as documented: d argument tensors for d modes']
REQUIRED_REACH = ['interpolate:dmrg_cross', 'interpolate:function_interpolate', 'interpolate:_maxvol']
REQUIRED_COUNTS = {'routine:dmrg_cross': 1, 'routine:interp_uni': 1, 'routine:interp_multi': 1, 'routine:interp_coupled': 1, 'second_use_after_argument_changed': 5, 'single_callback_with_more_than_65536_rows': 1, 'callback_invocations': 100, 'callback_indices_checked': 1000, 'start:user': 1,
                   'regime:mode<rank+kick': 1, 'executions': 100}
LINE_FUNCS = ['dmrg_cross', 'function_interpolate', '_maxvol']
CASE_TIMEOUT = {'quick': 300, 'thorough': 600}
MAX_TIMEOUT_FRACTION = 0.0


def cases(tier, seed):
    rng = random.Random('C14|%d' % seed)
    T = tier == 'thorough'
    cs = []
    nstruct = 400 if not T else 3000
    k = 2 if not T else 5
    for i in range(nstruct):
        routine = ['dmrg_cross', 'interp_uni', 'interp_multi', 'interp_coupled'][i % 4]
        d = rng.choice([2, 2, 3, 3, 4, 5])
        while True:
            style = rng.choice(['small', 'mixed', 'large'])
            N = [rng.randint(2, 4) if style == 'small' else (rng.choice((2, 3, 5, 9, 14, 20)) if style == 'mixed' else rng.randint(8, 20)) for _ in range(d)]
            if dn.prod(N) <= 50000:
                break
        base = {'gen': 'cross', 'routine': routine, 'N': N, 'target': ['lowrank', 'lowrank', 'smooth'][(i // 4) % 3], 'R': gens.rank_profile(rng, d, 'rand', 4), 'eps': 10 ** rng.uniform(-10, -3),
                'start': (i // 12) % 2 == 1, 'tscale': [1.0, 1.0, 1e-7, 1.0, 1e5, 1e-9][(i // 4) % 6], 'vseed': rng.randrange(2 ** 40)}
        for j in range(k):
            c = dict(base)
            c['sidx'] = j
            cs.append(c)
    # large smooth problems at tight eps: order 4, mode size 20, 1/(2 + i+j+k+l)^2 at eps = 1e-10 - ranks around 14, so a single function call carries more than 65536 sample points
    for i in range(4 if not T else 16):
        cs.append({'gen': 'cross', 'routine': ['interp_uni', 'interp_multi', 'dmrg_cross', 'interp_uni'][i % 4], 'N': [20] * 4 if i % 2 == 0 else [20, 19, 20, 18], 'target': 'smooth2', 'R': [1, 1, 1, 1, 1],
                   'eps': 1e-10, 'start': False, 'tscale': 1.0, 'vseed': rng.randrange(2 ** 40), 'sidx': 0})
    return cs


def run_case(case, ctx):
    import torchtt
    g = gens.tgen(case['vseed'])
    dt = torch.float64
    N, routine, eps = case['N'], case['routine'], case['eps']
    d = len(N)
    n = dn.prod(N)
    # ---- target -----------------------------------------------------------------------------------------------------
    if case['target'] == 'lowrank':
        Tt = dn.dense_of_cores(gens.make_cores(N, case['R'], dt, 'gauss', g))
    else:
        grids = torch.meshgrid(*[torch.arange(m, dtype=dt) for m in N], indexing='ij')
        Tt = 1.0 / (2.0 + sum(grids))
        if case['target'] == 'smooth2':
            Tt = Tt * Tt
    Tt = Tt * float(case.get('tscale', 1.0))      # overall magnitude of the function values (a cut-off that is not relative to the norm shows at 1e-7 / 1e-9)
    # xfun enumerates entries with the FIRST index running fastest (i0 + N0*i1 + ...): flatten the table in that order
    Tflat = Tt.permute(list(range(d - 1, -1, -1))).reshape(-1)
    ctx.count('routine:' + routine)
    ctx.count('executions')
    if any(m < max(case['R']) + 2 for m in N):
        ctx.count('regime:mode<rank+kick')
    start = None
    if case['start']:
        rr = random.Random(case['vseed'] + 11)
        start = gens.make_tt(N, [1] + [rr.randint(1, 3) for _ in N[1:]] + [1], dt, 'gauss', g)
        ctx.count('start:user')
    key = '%s/%s' % (routine, case['target'])
    what = '%s N=%s target=%s R=%s scale=%g eps=%.2e start=%s seed-index %d' % (routine, N, case['target'], case['R'] if case['target'] == 'lowrank' else '-', case.get('tscale', 1.0), eps, case['start'], case['sidx'])
    cb = {'calls': 0, 'rows': 0, 'maxrows': 0, 'bad': None, 'colmin': [10 ** 9] * d, 'colmax': [-1] * d}

    def flag(msg):
        if cb['bad'] is None:
            cb['bad'] = msg

    # ---- wrapped user functions (the callback recorder) ---------------------------------------------------------------
    if routine == 'dmrg_cross':
        def fun(I):
            cb['calls'] += 1
            if not torch.is_tensor(I) or I.dtype != torch.int64 or I.dim() != 2 or I.shape[1] != d:
                flag('argument is %s, expected an int64 M x %d tensor' % (hooks.signature(I), d))
                raise ValueError('malformed index matrix')
            cb['rows'] += I.shape[0]
            cb['maxrows'] = max(cb['maxrows'], I.shape[0])
            for kcol in range(d):
                if I.shape[0]:
                    lo, hi = int(I[:, kcol].min()), int(I[:, kcol].max())
                    cb['colmin'][kcol] = min(cb['colmin'][kcol], lo)
                    cb['colmax'][kcol] = max(cb['colmax'][kcol], hi)
                    if lo < 0 or hi >= N[kcol]:
                        flag('index out of range in column %d: min %d max %d, mode size %d' % (kcol, lo, hi, N[kcol]))
            J = I.clone()
            for kcol in range(d):
                J[:, kcol] = J[:, kcol].clamp(0, N[kcol] - 1)
            return Tt[tuple(J[:, kcol] for kcol in range(d))]
        kw = {'eps': eps}
        if start is not None:
            invoke = lambda: ctx.lib('dmrg_cross(start)', lambda s: torchtt.interpolate.dmrg_cross(fun, tuple(N) if case.get('sidx', 0) % 2 else list(N), x_start=s, **kw), start)
        else:
            invoke = lambda: ctx.lib('dmrg_cross', lambda: torchtt.interpolate.dmrg_cross(fun, tuple(N) if case.get('sidx', 0) % 2 else list(N), **kw))
        y = invoke()
    elif routine == 'interp_uni':
        # argument tensor = the flat index of every entry (int-valued, TT rank 2); f = table lookup
        from torchtt import _extras
        xarg = _extras.xfun(list(N), dtype=dt)
        valid = torch.arange(n, dtype=dt)
        # in half of the cases (and in all large ones) the argument is shifted by an integer offset, so that 0.0 - what an uninitialised or unfilled buffer holds - is NOT one of its entries
        off = 5.0 if (case['seed'] % 2 == 1 or n > 100000) else 0.0
        if off:
            xarg = ctx.call('TT+scalar', lambda a: a + off, xarg)
            ctx.count('interp_uni/argument-without-a-zero-entry')

        def fun(v):
            if torch.is_tensor(v) and off:
                v = v - off
            cb['calls'] += 1
            if not torch.is_tensor(v) or not v.is_floating_point() or v.dim() != 1:
                flag('argument is %s, expected a 1-d float tensor' % hooks.signature(v))
                raise ValueError('malformed value vector')
            cb['rows'] += v.shape[0]
            cb['maxrows'] = max(cb['maxrows'], v.shape[0])
            r = torch.round(v)
            if v.shape[0] and (not torch.equal(r, v) or float(v.min()) < 0 or float(v.max()) > n - 1):
                flag('value passed to the function is not an entry of the argument tensor: min %r max %r non-integer %d' % (float(v.min()), float(v.max()), int((r != v).sum())))
            return Tflat[r.clamp(0, n - 1).long()]
        kw = {'eps': eps}
        if start is not None:
            invoke = lambda: ctx.lib('function_interpolate(start)', lambda a, s: torchtt.interpolate.function_interpolate(fun, a, start_tens=s, **kw), xarg, start)
        else:
            invoke = lambda: ctx.lib('function_interpolate', lambda a: torchtt.interpolate.function_interpolate(fun, a, **kw), xarg)
        y = invoke()
    elif routine == 'interp_coupled':
        # argument tensors that vary along TWO modes each: x_j = X_j + n_j * X_{j+1 mod d} (int-valued, TT rank 2).  The tuple handed to f
        # identifies the multi-index redundantly, so "the row is an actual tuple of entries" is an exact consistency test.
        grids = torchtt.meshgrid([torch.arange(m, dtype=dt) for m in N])
        xs = []
        for j in range(d):
            xj = ctx.call('TT+TT', lambda a, b: a + float(N[j]) * b, grids[j], grids[(j + 1) % d])
            xs.append(xj)

        def fun(V):
            cb['calls'] += 1
            if not torch.is_tensor(V) or not V.is_floating_point() or V.dim() != 2 or V.shape[1] != d:
                flag('argument is %s, expected a float M x %d tensor' % (hooks.signature(V), d))
                raise ValueError('malformed value matrix')
            cb['rows'] += V.shape[0]
            cb['maxrows'] = max(cb['maxrows'], V.shape[0])
            r = torch.round(V)
            J = r.long()
            idx = []
            if V.shape[0]:
                if not torch.equal(r, V):
                    flag('row values are not entries of the argument tensors (non-integer)')
                for j in range(d):
                    ij = J[:, j] % N[j]                      # own mode
                    nxt = J[:, j] // N[j]                    # the next mode, as seen by column j
                    own_next = J[:, (j + 1) % d] % N[(j + 1) % d]
                    if bool((nxt != own_next).any()) or int(nxt.min()) < 0 or int(nxt.max()) >= N[(j + 1) % d]:
                        flag('row is not a tuple of entries of the argument tensors taken at ONE multi-index: column %d and column %d disagree on mode %d' % (j, (j + 1) % d, (j + 1) % d))
                    idx.append(ij.clamp(0, N[j] - 1))
                    cb['colmin'][j] = min(cb['colmin'][j], int(ij.min()))
                    cb['colmax'][j] = max(cb['colmax'][j], int(ij.max()))
            else:
                idx = [J[:, j] for j in range(d)]
            return Tt[tuple(idx)]
        kw = {'eps': eps}
        if start is not None:
            invoke = lambda: ctx.lib('function_interpolate(list,start)', lambda s, *a: torchtt.interpolate.function_interpolate(fun, list(a), start_tens=s, **kw), start, *xs)
        else:
            invoke = lambda: ctx.lib('function_interpolate(list)', lambda *a: torchtt.interpolate.function_interpolate(fun, list(a), **kw), *xs)
        y = invoke()
    else:
        grids = torchtt.meshgrid([torch.arange(m, dtype=dt) for m in N])
        # the d arguments: bare meshgrid components, or other RANK-ONE int-valued tensors from which the multi-index can still be decoded exactly:
        # 'scaled'  x_j = s_j * X_j (the library keeps the scalar in the FIRST core, not in core j);  'pp'  x_j = 2^{i_j} * 3^{i_{j+1}} (varies along two modes)
        form = ['grid', 'grid', 'scaled', 'pp'][case['seed'] % 4]
        if form == 'pp' and (max(N) > 12 or d < 2):
            form = 'scaled'
        ctx.count('interp_multi/arguments:' + form)
        sc = [[2.0, 3.0, -2.0, 5.0][(case['seed'] // 4 + j) % 4] for j in range(d)]
        intfirst = form == 'scaled' and case['seed'] % 8 == 6 and d >= 2
        if intfirst:
            # argument tensors of DIFFERENT dtypes, the narrowest first: an int64 index grid, then float64 tensors with non-integer entries (2.5 i, 0.5 i, -1.5 i)
            sc = [1.0] + [[2.5, 0.5, -1.5][(case['seed'] // 8 + j) % 3] for j in range(1, d)]
            ctx.count('interp_multi/arguments-of-different-dtypes(int64 first)')
        if form == 'scaled':
            xs = [ctx.call('TT*scalar', lambda a, c=sc[j]: c * a, grids[j]) for j in range(d)]
            if intfirst:
                xs[0] = torchtt.TT([c.to(torch.int64) for c in grids[0].cores])
        elif form == 'pp':
            xs = []
            for j in range(d):
                vs = [torch.ones(m, dtype=dt) for m in N]
                vs[j] = vs[j] * (2.0 ** torch.arange(N[j], dtype=dt))
                vs[(j + 1) % d] = vs[(j + 1) % d] * (3.0 ** torch.arange(N[(j + 1) % d], dtype=dt))
                xs.append(ctx.call('rank1TT', lambda *v: torchtt.rank1TT(list(v)), *vs))
        else:
            xs = grids

        def decode(V):
            """index columns from the value matrix, or None when some value is not an entry of its argument tensor"""
            if form == 'grid':
                r = torch.round(V)
                return r.long() if torch.equal(r, V) else None
            if form == 'scaled':
                q = V / torch.tensor(sc, dtype=V.dtype)
                r = torch.round(q)
                return r.long() if torch.equal(r, q) and torch.equal(r * torch.tensor(sc, dtype=V.dtype), V) else None
            cols = []
            for j in range(d):
                v = V[:, j]
                a = torch.zeros(v.shape[0], dtype=torch.long)
                w_ = v.clone()
                if bool((w_ < 1).any()) or not torch.equal(torch.round(w_), w_):
                    return None
                for _ in range(N[j]):
                    even = torch.remainder(w_, 2.0) == 0
                    a = a + even.long()
                    w_ = torch.where(even, w_ / 2.0, w_)
                b = torch.round(torch.log(w_) / 1.0986122886681098).long()
                if not torch.equal(3.0 ** b.to(v.dtype), w_):
                    return None
                nxt = (j + 1) % d
                cols.append((a, b, nxt))
            for j in range(d):      # column j's view of mode j+1 must agree with column j+1's own mode
                if not torch.equal(cols[j][1], cols[cols[j][2]][0]):
                    return None
            return torch.stack([c[0] for c in cols], dim=1)

        def fun(V):
            cb['calls'] += 1
            if not torch.is_tensor(V) or not V.is_floating_point() or V.dim() != 2 or V.shape[1] != d:
                flag('argument is %s, expected a float M x %d tensor' % (hooks.signature(V), d))
                raise ValueError('malformed value matrix')
            cb['rows'] += V.shape[0]
            cb['maxrows'] = max(cb['maxrows'], V.shape[0])
            J = decode(V) if V.shape[0] else torch.zeros((0, d), dtype=torch.long)
            if J is None:
                flag('row values are not entries of the argument tensors taken at one multi-index (%s arguments): first row %s' % (form, V[0].tolist()))
                J = torch.zeros((V.shape[0], d), dtype=torch.long)
            if V.shape[0]:
                for kcol in range(d):
                    lo, hi = int(J[:, kcol].min()), int(J[:, kcol].max())
                    cb['colmin'][kcol] = min(cb['colmin'][kcol], lo)
                    cb['colmax'][kcol] = max(cb['colmax'][kcol], hi)
                    if lo < 0 or hi > N[kcol] - 1:
                        flag('row is not a tuple of entries of the argument tensors: column %d index range [%r,%r], grid 0..%d' % (kcol, lo, hi, N[kcol] - 1))
            return Tt[tuple(J[:, kcol].clamp(0, N[kcol] - 1) for kcol in range(d))]
        kw = {'eps': eps}
        if start is not None:
            invoke = lambda: ctx.lib('function_interpolate(list,start)', lambda s, *a: torchtt.interpolate.function_interpolate(fun, list(a), start_tens=s, **kw), start, *xs)
        else:
            invoke = lambda: ctx.lib('function_interpolate(list)', lambda *a: torchtt.interpolate.function_interpolate(fun, list(a), **kw), *xs)
        y = invoke()
    ctx.count('callback_invocations', cb['calls'])
    ctx.count('callback_indices_checked', cb['rows'])
    if cb['maxrows'] > 65536:
        ctx.count('single_callback_with_more_than_65536_rows')
    if cb['bad'] is not None:
        ctx.viol(key + '/clause=callback-argument', '%s: %s (after %d callback invocations)' % (what, cb['bad'], cb['calls']))
    if isinstance(y, Raised):
        if cb['bad'] is None or y.type != 'ValueError':
            ctx.viol(key + '/clause=raises:%s@%s' % (y.type, y.func), '%s raised %r' % (what, y))
        return
    if not isinstance(y, torchtt.TT) or y.is_ttm or [int(m) for m in y.N] != list(N):
        ctx.viol(key + '/clause=shape', '%s: result %s' % (what, hooks.signature(y)))
        return
    try:
        dy = dn.D(y)
    except ValueError as e:
        ctx.viol(key + '/clause=ill-formed-result', '%s: %s' % (what, e))
        return
    nt = dn.fro(Tt)
    err = dn.fro(dy - Tt)
    ratio = err / (eps * nt)
    ctx.metric('err_over_eps_norm/' + routine, ratio)
    if not err <= C_EPS * eps * nt + 1e3 * 2.3e-16 * nt:
        # Mechanism classification by further executions of the SAME call under other internal seeds: a systematic break fails (nearly) always,
        # the cross method's rare seed-dependent false convergence (local stopping rule satisfied on a wrong iterate) does not.
        fails, runs = 0, 0
        for j in range(1, 7):
            torch.manual_seed((case['seed'] + 7919 * j) % (2 ** 31))
            yj = invoke()
            runs += 1
            if isinstance(yj, Raised) or not isinstance(yj, torchtt.TT) or [int(m) for m in yj.N] != list(N):
                fails += 1
                continue
            if not dn.fro(dn.D(yj) - Tt) <= C_EPS * eps * nt + 1e3 * 2.3e-16 * nt:
                fails += 1
        ctx.count('reseeded_executions', runs)
        clause = 'error>10eps' if fails >= 3 else 'error>10eps/seed-dependent-false-convergence'
        ctx.viol(('%s/clause=%s' % (routine, clause)) if fails < 3 else (key + '/clause=' + clause),
                 '%s: ||D(y)-T||/||T|| = %.3e = %.3g * eps; result ranks %s; callback invocations %d; the same call under 6 other internal seeds failed %d times' % (
                     what, err / nt, ratio, [int(r) for r in y.R], cb['calls'], fails))
    elif routine in ('interp_uni', 'interp_multi') and case['seed'] % 3 == 0 and (routine == 'interp_uni' or form == 'grid') and max(N) >= 2:
        # ---- second use of the SAME argument object after it was changed in place: mode k of the argument reversed (set_core with a core of the same shape, or a raw
        # in-place write).  The function values are now T reversed along k; anything the first call left behind (on the object, in the module) must not be used.
        k2 = [k_ for k_ in range(d) if N[k_] >= 2][case['seed'] // 3 % len([k_ for k_ in range(d) if N[k_] >= 2])]
        obj = xarg if routine == 'interp_uni' else xs[k2]
        flipped = obj.cores[k2].flip(1).clone()
        if case['seed'] // 3 % 2 == 0:
            r2 = ctx.lib('set_core', lambda a: a.set_core(k2, flipped), obj, inplace=(obj,))
        else:
            def wr(a):
                with torch.no_grad():
                    a.cores[k2].copy_(flipped)
            r2 = ctx.lib('core_write(in place)', wr, obj, inplace=(obj,), resnap_all=True)
        if not isinstance(r2, Raised):
            ctx.count('second_use_after_argument_changed')
            cb['bad'] = None
            T2 = Tt.flip(k2)
            fails, runs, last = 0, 0, None
            for j in range(5):
                if j:
                    torch.manual_seed((case['seed'] + 104729 * j) % (2 ** 31))
                yj = invoke()
                runs += 1
                bad = isinstance(yj, Raised) or not isinstance(yj, torchtt.TT) or [int(m) for m in yj.N] != list(N)
                if not bad:
                    e2 = dn.fro(dn.D(yj) - T2)
                    bad = not e2 <= C_EPS * eps * nt + 1e3 * 2.3e-16 * nt
                    last = e2
                fails += bad
                if not bad and j == 0:
                    break           # the ordinary outcome: accurate at once
            if cb['bad'] is not None:
                ctx.viol(key + '/second-use/clause=callback-argument', '%s, argument mode %d reversed in place, second call: %s' % (what, k2, cb['bad']))
            if fails >= 3:
                ctx.viol(key + '/second-use/clause=error>10eps', '%s: second call after mode %d of the argument was reversed in place: %d of %d executions miss the bound (last error %s)' % (what, k2, fails, runs, last))
            elif fails:
                ctx.viol('%s/clause=error>10eps/seed-dependent-false-convergence' % routine, '%s (second call on the changed argument): %d of %d executions miss the bound' % (what, fails, runs))
    if cb['calls'] > 0 and nt > 0:
        ctx.nontrivial((routine, case['target'], tuple(N), tuple(case['R']), int(math.log10(eps)), case['start'], case.get('tscale', 1.0), case['sidx']))
