"""C16 - Riemannian projection is an orthogonal projector; the AD gradient is its image."""
import random
import torch

from .. import dense as dn
from .. import gens
from .. import hooks
from ..ctx import Raised

PROP = 'C16'
TOL = 1e-9
RULE = ('cases = base points x (TT tensors and TT matrices) of order 2..5 with MINIMAL ranks (a random TT is admitted only if the harness measures its unfolding ranks equal to its TT '
        'ranks), rank profiles drawn over all achievable ones for small sizes, tensors z,w of arbitrary ranks. Independent reference: the harness builds the tangent space of the '
        'fixed-rank manifold at x densely (Jacobian of cores -> dense tensor by autograd, orthonormal basis Q by SVD, dimension checked against sum r_{k-1} n_k r_k - sum r_k^2) and '
        'requires D(P(z)) = Q Q^T vec(z). Algebraic monitors on dense values in addition: linearity, idempotence, self-adjointness, fixed point P(x)=x, residual orthogonality, '
        'ranks(Pz) <= 2 ranks(x). riemannian_gradient(x,f) for f in {1/2||t-a||^2, <c,t>, (||t||^2)^2} must equal Q Q^T (dense Euclidean gradient by autograd). Tolerance 1e-9 relative (1e3*u/delta for the ill-conditioned base points: two interface vectors of one core a distance delta in {1e-4,1e-5,3e-6} apart, modes up to 24); a few base points with one mode of 1025 .. 2050. '
        'distinct = (kind, structure, rank profile, f); non-trivial = tangent space of dimension >= 2 and z not in it.')
ASSUMPTIONS = ['real float64', 'base points of non-minimal rank are rejected by the generator (the manifold is not smooth there)']
REQUIRED_REACH = ['manifold:riemannian_projection', 'manifold:riemannian_gradient', 'manifold:_delta2cores']
REQUIRED_COUNTS = {'kind:tensor': 1, 'kind:operator': 1, 'projection_vs_dense_projector': 50, 'gradient_vs_dense_projector': 30, 'axiom_checks': 200, 'base-point:ill-conditioned': 10, 'base-point:tiny-singular-value': 10, 'base-point:mode>1024': 2, 'moved_base_point_histories': 30, 'repeated_gradient_calls_at_one_object': 30}
LINE_FUNCS = ['riemannian_projection', 'riemannian_gradient', '_delta2cores']


def cases(tier, seed):
    rng = random.Random('C16|%d' % seed)
    cs = []
    n = 1500 if tier == 'quick' else 15000
    for i in range(n):
        d = rng.choice([2, 2, 3, 3, 4, 5])
        ttm = i % 4 == 3
        while True:
            N = [rng.choice((2, 3, 4)) for _ in range(d)]
            M = [rng.choice((1, 2)) for _ in range(d)] if ttm else None
            modes = [a * b for a, b in zip(M, N)] if ttm else N
            if dn.prod(modes) <= 600:
                break
        # achievable rank profile: r_k <= min(prod left, prod right)
        R = [1]
        for k in range(1, d):
            cap = min(dn.prod(modes[:k]), dn.prod(modes[k:]), 3)
            R.append(rng.randint(1, cap))
        R.append(1)
        # tighten so that r_k <= r_{k-1} n_k and r_k <= n_{k+1} r_{k+1}
        for _ in range(3):
            for k in range(1, d):
                R[k] = min(R[k], R[k - 1] * modes[k - 1], modes[k] * R[k + 1])
        cs.append({'gen': 'proj', 'N': N, 'M': M, 'R': R, 'f': ['quad', 'lin', 'quartic'][i % 3], 'Rz': gens.rank_profile(rng, d, 'rand', 4), 'Rw': gens.rank_profile(rng, d, 'rand', 3)})
    # ill-conditioned (still minimal-rank) base points: two interface vectors of one core a distance delta apart, larger modes so that tall unfoldings occur.
    # A-priori tolerance for this class: 1e3*u/delta (the tangent space itself moves by about u/delta when x is perturbed by roundoff).
    for i in range(120 if tier == 'quick' else 1500):
        d = rng.choice([2, 2, 3])
        ttm = i % 4 == 3
        while True:
            N = [rng.choice((2, 3, 4, 6, 8, 12, 16, 24)) for _ in range(d)]
            M = [rng.choice((1, 2)) for _ in range(d)] if ttm else None
            modes = [a * b for a, b in zip(M, N)] if ttm else N
            if dn.prod(modes) <= 600:
                break
        R = [1] + [min(rng.randint(2, 3), dn.prod(modes[:k]), dn.prod(modes[k:])) for k in range(1, d)] + [1]
        for _ in range(3):
            for k in range(1, d):
                R[k] = min(R[k], R[k - 1] * modes[k - 1], modes[k] * R[k + 1])
        cs.append({'gen': 'proj', 'N': N, 'M': M, 'R': R, 'f': ['quad', 'lin', 'quartic'][i % 3], 'Rz': gens.rank_profile(rng, d, 'rand', 4), 'Rw': gens.rank_profile(rng, d, 'rand', 3),
                   'ill': [1e-4, 1e-5, 3e-6][i % 3], 'ill_bond': rng.randint(1, d - 1), 'ill_side': i % 2})
    # base points with a VERY small (but genuine) singular value at a bond: x = a + delta*b, delta 1e-11 / 1e-12.  The tangent space at such a point is ill-conditioned (it moves by
    # u/delta under roundoff), so no independent dense projector is demanded; what remains decidable is the algebra of P (axioms) and "gradient = P(Euclidean gradient)" with the library's own P
    for i in range(40 if tier == 'quick' else 400):
        d = rng.choice([2, 3, 3, 4])
        ttm = i % 4 == 3
        N = [rng.choice((3, 4, 5, 6)) for _ in range(d)]
        M = [rng.choice((1, 2)) for _ in range(d)] if ttm else None
        cs.append({'gen': 'proj', 'N': N, 'M': M, 'R': [1] + [2] * (d - 1) + [1], 'f': ['quad', 'lin', 'quartic'][i % 3], 'Rz': gens.rank_profile(rng, d, 'rand', 3), 'Rw': gens.rank_profile(rng, d, 'rand', 3),
                   'smallsv': [1e-11, 1e-12][i % 2]})
    # one long mode (above 1024, not a multiple of a power of two): size-dependent evaluation strategies must not change the projector
    for i in range(4 if tier == 'quick' else 24):
        d = 2 if (tier == 'quick' or i % 3) else 3
        ttm = i % 4 == 3
        big = rng.choice((1025, 1100, 1300) if tier == 'quick' else (1025, 1100, 1300, 1500, 2050))
        pos = rng.randrange(d)
        N = [2] * d
        M = [1] * d if ttm else None
        if ttm and i % 8 == 3:
            M[pos], N[pos] = big, 1           # long ROW mode
            M = [m if m != 1 or k_ == pos else 2 for k_, m in enumerate(M)]
            N = [1 if k_ == pos else 2 for k_ in range(d)]
        else:
            N[pos] = big
        modes = [a * b for a, b in zip(M, N)] if ttm else N
        R = [1] + [2] * (d - 1) + [1]
        for _ in range(3):
            for k in range(1, d):
                R[k] = min(R[k], R[k - 1] * modes[k - 1], modes[k] * R[k + 1])
        cs.append({'gen': 'proj', 'N': N, 'M': M, 'R': R, 'f': ['quad', 'lin', 'quartic'][i % 3], 'Rz': [1] + [2] * (d - 1) + [1], 'Rw': [1] + [1] * (d - 1) + [1], 'long': True})
    return cs


def contract(cores):
    from .c15 import contract as c
    return c(cores)


def run_case(case, ctx):
    import torchtt
    tt = torchtt
    g = gens.tgen(case['seed'])
    dt = torch.float64
    N, M, R = case['N'], case['M'], case['R']
    d = len(N)
    ttm = M is not None
    modes = [a * b for a, b in zip(M, N)] if ttm else N
    # memory layout of the base point: contiguous cores, cores that are permuted views (rank and mode dims not mergeable), or (operators) the result of t()
    layout = ['contiguous', 'permuted-views', 'via-t()', 'via-TT-SVD', 'via-round', 'via-TT-SVD-rescaled'][case['seed'] % 6]
    tol = TOL
    noref = False
    if case.get('smallsv'):
        layout = 'tiny-singular-value'
        noref = True
        a_ = gens.make_tt(N, R, dt, 'gauss', g, M=M)
        b_ = gens.make_tt(N, [1] * (d + 1), dt, 'gauss', g, M=M)
        dl_ = case['smallsv'] * dn.fro(dn.D(a_)) / max(dn.fro(dn.D(b_)), 1e-300)
        x = ctx.call('TT+TT', lambda p_, q_: p_ + dl_ * q_, a_, b_)
        R = [int(r) for r in x.R]
        ctx.count('base-point:tiny-singular-value')
    elif case.get('ill'):
        layout = 'ill-conditioned'
        delta, kb = case['ill'], case['ill_bond']
        tol = 1e3 * dn.ueps(dt) / delta
        cs = gens.make_cores(N, R, dt, 'gauss', g, M=M)
        if R[kb] >= 2:
            if case['ill_side'] == 0:       # the core left of the bond: two of its outgoing interface vectors nearly parallel
                cs[kb - 1][..., 1] = cs[kb - 1][..., 0] + delta * cs[kb - 1][..., 1]
            else:                           # the core right of the bond: two of its incoming interface vectors nearly parallel
                cs[kb][1] = cs[kb][0] + delta * cs[kb][1]
            ctx.count('base-point:ill-conditioned')
        x = torchtt.TT(cs)
    elif layout == 'permuted-views':
        cs = gens.make_cores(N, R, dt, 'gauss', g, M=M)
        cs = [c.permute(*reversed(range(c.dim()))).contiguous().permute(*reversed(range(c.dim()))) for c in cs]     # same values, reversed strides
        x = torchtt.TT(cs)
    elif layout == 'via-t()' and ttm:
        x = ctx.call('t', lambda a: a.t(), gens.make_tt(M, R, dt, 'gauss', g, M=N))
    elif layout in ('via-TT-SVD', 'via-round', 'via-TT-SVD-rescaled'):
        # the base point is handed out by the library itself (numpy-integer rank list, non-contiguous cores, orthogonal gauge)
        x0_ = gens.make_tt(N, R, dt, 'gauss', g, M=M)
        if layout == 'via-round':
            x = ctx.call('round', lambda a: a.round(1e-15), x0_)
        else:
            x = ctx.call('TT(dense)', lambda a: torchtt.TT(a.full(), [(m, n) for m, n in zip(M, N)], eps=1e-14) if ttm else torchtt.TT(a.full(), eps=1e-14), x0_)
        if layout == 'via-TT-SVD-rescaled' and isinstance(x, torchtt.TT):
            # a TT-SVD output (orthonormal frames) times a scalar within 5e-6 of one: the frames are now ALMOST orthonormal (x*(1+delta), x/(1-delta) - what x/x.norm() gives after a loose truncation)
            fac = [1.0 + 1e-6, 1.0 - 2e-6, 1.0 + 3e-7, 1.0 / (1.0 - 2e-6)][(case['seed'] // 6) % 4]
            x = ctx.call('TT*scalar', lambda a: a * fac, x)
        if not isinstance(x, torchtt.TT) or [int(r) for r in x.R] != list(R):
            ctx.count('rejected:provenance-changed-ranks')
            return
    else:
        layout = 'contiguous'
        x = gens.make_tt(N, R, dt, 'gauss', g, M=M)
    ctx.count('base-layout:' + layout)
    dx = dn.D(x)
    dxi = dn.interleave_dense(dx, d) if ttm else dx
    from .c01 import _unfolding_ranks
    if not noref and _unfolding_ranks(dxi, modes, 1e-10) != R[1:-1]:
        ctx.count('rejected:not-minimal-rank')
        return
    kind = 'operator' if ttm else 'tensor'
    ctx.count('kind:' + kind)
    if case.get('long'):
        ctx.count('base-point:mode>1024')
    key = 'manifold/' + kind
    what = '%s N=%s M=%s R=%s' % (kind, N, M, R)
    # ---- independent dense projector: tangent space = range of the Jacobian of the parametrisation ---------------------
    numel = dx.numel()
    dim_expected = sum(R[k] * modes[k] * R[k + 1] for k in range(d)) - sum(R[k] ** 2 for k in range(1, d))

    def param_to_dense(*cs):
        return contract(list(cs)).reshape(-1)

    def tangent_basis(obj):
        leaf = [c.detach().clone().requires_grad_(True) for c in obj.cores]
        J = torch.autograd.functional.jacobian(param_to_dense, tuple(leaf))
        J = torch.cat([j.reshape(numel, -1) for j in J], dim=1)
        try:
            U, S, _ = torch.linalg.svd(J, full_matrices=False)
        except RuntimeError:
            # LAPACK's divide-and-conquer SVD occasionally fails to converge on the ill-conditioned Jacobians: orthogonal reduction first, then the SVD of the small triangular factor
            try:
                Qj, Rj = torch.linalg.qr(J)
                U, S, _ = torch.linalg.svd(Rj, full_matrices=False)
                U = Qj @ U
                ctx.count('reference-svd:retry-through-qr')
            except RuntimeError:
                ctx.count('rejected:reference-svd-did-not-converge')
                return None, -1
        rk_ = int((S > 1e-10 * S[0]).sum())
        return (U[:, :rk_], rk_) if rk_ == dim_expected else (None, rk_)
    Q, rk = (None, 2) if noref else tangent_basis(x)
    if Q is None and not noref:
        ctx.count('rejected:tangent-dimension-mismatch')
        return

    def Pd(v):
        return (Q @ (Q.T @ v.reshape(-1))).reshape(v.shape)
    z = gens.make_tt(N, case['Rz'], dt, 'gauss', g, M=M)
    w = gens.make_tt(N, case['Rw'], dt, 'gauss', g, M=M)
    zk = case['seed'] % 13
    if zk in (5, 9):
        # the zero tensor in the forms the library itself hands out (zeros(...), 0*w, one vanishing core): P(0) = 0
        if zk == 5:
            z = ctx.call('TT*scalar', lambda t: t * 0.0, z)
        else:
            j0 = (case['seed'] // 13) % d
            z = torchtt.TT([c * 0 if k_ == j0 else c for k_, c in enumerate(z.cores)])
        ctx.count('projected-tensor:zero')
    if zk in (2, 7):
        # a projected tensor of tiny (1e-15) or huge (1e12) overall size, the factor on its first core (what c*z gives): P is linear, so every clause holds relative to ||z||
        # (only z is rescaled - the base point, whose scaling makes the reference projector ill-conditioned, is left alone)
        fz = 1e-15 if zk == 2 else 1e12
        z = ctx.call('TT*scalar', lambda t: t * fz, z)
        ctx.count('projected-tensor:magnitude-%g' % fz)
    dz, dw = dn.D(z), dn.D(w)
    P = tt.manifold.riemannian_projection

    def proj(name, a, b):
        r = ctx.lib('riemannian_projection', P, a, b)
        if isinstance(r, Raised):
            ctx.viol(key + '/projection/clause=raises:%s@%s' % (r.type, r.func), '%s: P(%s) raised %r' % (what, name, r))
            return None
        if not isinstance(r, tt.TT) or bool(r.is_ttm) != ttm or list(r.N) != list(N):
            ctx.viol(key + '/projection/clause=shape', '%s: P(%s) returned %s' % (what, name, hooks.signature(r)))
            return None
        return r
    Pz = proj('z', x, z)
    Pw = proj('w', x, w)
    if Pz is None or Pw is None:
        return
    dPz, dPw = dn.D(Pz), dn.D(Pw)
    nz, nw, nx = dn.fro(dz), dn.fro(dw), dn.fro(dx)

    def near(a, b, scale, clause, detail):
        err = dn.fro(a - b) if torch.is_tensor(a) else abs(a - b)
        ctx.count('axiom_checks')
        ctx.metric('rel_err/' + clause, err / max(scale, 1e-300))
        if not err <= tol * scale:
            ctx.viol(key + '/projection/clause=' + clause, '%s: %s: error %.3e, scale %.3e' % (what, detail, err, scale))
            return False
        return True
    # independent reference
    if not noref:
        ctx.count('projection_vs_dense_projector')
        near(dPz, Pd(dz), nz, 'differs-from-dense-orthogonal-projector', 'D(P(z)) vs QQ^T z')
    # axioms
    alpha = 1.7
    zaw = ctx.lib('TT+TT', lambda a, b: a + alpha * b, z, w)
    if not isinstance(zaw, Raised):
        Pzw = proj('z+aw', x, zaw)
        if Pzw is not None:
            near(dn.D(Pzw), dPz + alpha * dPw, nz + alpha * nw, 'linearity', 'P(z+aw) vs P(z)+aP(w)')
    PPz = proj('P(z)', x, Pz)
    if PPz is not None:
        near(dn.D(PPz), dPz, nz, 'idempotence', 'P(P(z)) vs P(z)')
    near(float((dPz * dw).sum()), float((dz * dPw).sum()), nz * nw, 'self-adjointness', '<Pz,w> vs <z,Pw>')
    Px = proj('x', x, x)
    if Px is not None:
        near(dn.D(Px), dx, nx, 'fixed-point', 'P(x) vs x')
    near(float(((dz - dPz) * dPw).sum()), 0.0, nz * nw, 'residual-orthogonality', '<z-Pz,Pw>')
    Rp = [int(r) for r in Pz.R]
    if any(Rp[k] > 2 * R[k] for k in range(1, d)):
        ctx.viol(key + '/projection/clause=ranks>2r', '%s: ranks of P(z) %s' % (what, Rp))
    # ---- gradient -------------------------------------------------------------------------------------------------------
    a = gens.make_tt(N, case['Rw'], dt, 'gauss', g, M=M)
    da = dn.D(a)
    fkind = case['f']
    if fkind == 'quad':
        f = lambda t: 0.5 * (t - a).norm() ** 2
        fd = lambda T: 0.5 * ((T - da) ** 2).sum()
    elif fkind == 'lin':
        f = (lambda t: (a * t).sum()) if ttm else (lambda t: tt.dot(t, a))
        fd = lambda T: (da * T).sum()
    else:
        f = (lambda t: t.norm(True) ** 2) if ttm else (lambda t: tt.dot(t, t) ** 2)
        fd = lambda T: ((T ** 2).sum()) ** 2
    Tl = dx.clone().requires_grad_(True)
    (egrad,) = torch.autograd.grad(fd(Tl), Tl)
    gr = ctx.lib('riemannian_gradient', lambda p: tt.manifold.riemannian_gradient(p, f), x)
    gkey = key + '/gradient/f=' + fkind
    if isinstance(gr, Raised):
        ctx.viol(gkey + '/clause=raises:%s@%s' % (gr.type, gr.func), '%s: riemannian_gradient raised %r' % (what, gr))
        return
    if not isinstance(gr, tt.TT) or bool(gr.is_ttm) != ttm or list(gr.N) != list(N):
        ctx.viol(gkey + '/clause=shape', '%s: returned %s' % (what, hooks.signature(gr)))
        return
    ne = dn.fro(egrad)
    if noref:
        # the library's own projection of the dense Euclidean gradient (written as a TT by the constructor, decided by C01)
        eg_tt = ctx.lib('TT(dense)', lambda e_: tt.TT(e_, [(m_, n_) for m_, n_ in zip(M, N)], eps=1e-15) if ttm else tt.TT(e_, eps=1e-15), egrad.detach())
        Peg = proj('Euclidean gradient', x, eg_tt) if isinstance(eg_tt, tt.TT) else None
        if Peg is None:
            return
        ctx.count('gradient_vs_library_projection_of_the_euclidean_gradient')
        errn = dn.fro(dn.D(gr) - dn.D(Peg))
        ctx.metric('rel_err/gradient-vs-own-projection', errn / max(ne, 1e-300))
        if not errn <= 10 * tol * max(ne, 1e-300):
            ctx.viol(gkey + '/clause=differs-from-P(euclidean-gradient)', '%s: ||grad - P(egrad)|| = %.3e, ||egrad|| = %.3e' % (what, errn, ne))
        ctx.nontrivial((kind, 'smallsv', tuple(N), tuple(M or ()), tuple(R), fkind))
        return
    ctx.count('gradient_vs_dense_projector')
    err = dn.fro(dn.D(gr) - Pd(egrad))
    ctx.metric('rel_err/gradient', err / max(ne, 1e-300))
    if not err <= tol * max(ne, 1e-300) * 10:
        ctx.viol(gkey + '/clause=differs-from-projected-euclidean-gradient', '%s: ||grad - QQ^T egrad|| = %.3e, ||egrad|| = %.3e' % (what, err, ne))
    if rk >= 2 and dn.fro(dz - dPz) > 1e-6 * nz:
        ctx.nontrivial((kind, tuple(N), tuple(M or ()), tuple(R), fkind))
    # ---- history: a SECOND gradient at the same object (another cost function, then the first one again): nothing may carry over from the earlier calls --------
    if case['seed'] % 2 == 1:
        b2 = gens.make_tt(N, case['Rz'], dt, 'gauss', g, M=M)
        db2 = dn.D(b2)
        f2 = (lambda t: (b2 * t).sum()) if ttm else (lambda t: tt.dot(t, b2))
        for (fname, ff, eg) in (('second-call/lin', f2, db2), ('third-call/' + fkind, f, egrad)):
            grn = ctx.lib('riemannian_gradient', lambda p, ff=ff: tt.manifold.riemannian_gradient(p, ff), x)
            if not isinstance(grn, tt.TT):
                break
            ctx.count('repeated_gradient_calls_at_one_object')
            nn_ = max(dn.fro(eg), 1e-300)
            e_ = dn.fro(dn.D(grn) - Pd(eg))
            if not e_ <= 10 * tol * nn_:
                ctx.viol(key + '/gradient/clause=depends-on-earlier-calls(%s)' % fname.split('/')[0], '%s: %s: ||grad - QQ^T egrad|| = %.3e, ||egrad|| = %.3e' % (what, fname, e_, nn_))
    # ---- history: the base point moves IN PLACE (documented set_core, same core sizes); projection and gradient must follow the point, not the object -----------
    if case['seed'] % 2 == 0:
        rr = random.Random(case['seed'] + 16)
        ks = rr.sample(range(d), min(d, 2))
        how = ['set_core', 'core_write'][(case['seed'] // 2) % 2]      # replace the cores (new tensor objects) or update them in place (same tensor objects, as an optimiser step does)
        ctx.count('base_point_moved_by:' + how)
        for k in ks:
            newcore = gens.values(list(x.cores[k].shape), dt, 'gauss', g)
            if how == 'set_core':
                r = ctx.lib('set_core', lambda t, k=k, c=newcore: t.set_core(k, c), x, inplace=(x,))
            else:
                def write(t, k=k, c=newcore):
                    with torch.no_grad():
                        t.cores[k].mul_(0.5).add_(c)
                r = ctx.lib('core_write(in place)', write, x, inplace=(x,), resnap_all=True)
            if isinstance(r, Raised):
                return
        dx2 = dn.D(x)
        dxi2 = dn.interleave_dense(dx2, d) if ttm else dx2
        if _unfolding_ranks(dxi2, modes, 1e-10) != R[1:-1]:
            ctx.count('rejected:moved-point-not-minimal-rank')
            return
        Q2, rk2 = tangent_basis(x)
        if Q2 is None:
            ctx.count('rejected:moved-point-tangent-dimension-mismatch')
            return
        ctx.count('moved_base_point_histories')
        Pz2 = proj('z (after the base point moved)', x, z)
        if Pz2 is not None:
            ref2 = (Q2 @ (Q2.T @ dz.reshape(-1))).reshape(dz.shape)
            near(dn.D(Pz2), ref2, nz, 'stale-base-point(after %s)' % how, 'D(P_x(z)) vs QQ^T z at the moved point')
        gr2 = ctx.lib('riemannian_gradient', lambda p: tt.manifold.riemannian_gradient(p, f), x)
        if isinstance(gr2, tt.TT):
            Tl2 = dx2.clone().requires_grad_(True)
            (eg2,) = torch.autograd.grad(fd(Tl2), Tl2)
            ref2 = (Q2 @ (Q2.T @ eg2.reshape(-1))).reshape(eg2.shape)
            ne2 = max(dn.fro(eg2), 1e-300)
            if not dn.fro(dn.D(gr2) - ref2) <= 10 * tol * ne2:
                ctx.viol(gkey + '/clause=stale-base-point(after %s)' % how, '%s: gradient at the moved point differs from the projected Euclidean gradient: %.3e (||egrad||=%.3e)' % (what, dn.fro(dn.D(gr2) - ref2), ne2))
