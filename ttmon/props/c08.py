"""C08 - indexing and pointwise evaluation agree with dense indexing."""
import random
import itertools
import torch

from .. import dense as dn
from .. import gens
from ..oracle import compare
from ..ctx import Raised

PROP = 'C08'
RULE = ('cases = index expressions for TT tensors of order 1..3 (thorough: 4) over all mode-size patterns from {1,2,3} (thorough adds 5): per position '
        'one of {int>=0, negative int, ":", "a:b", length-1 slice, stepped slice, empty slice (thorough)}, None inserted at any position, leading or trailing '
        'Ellipsis, bare int/slice/Ellipsis on order 1; operators with int/int, slice/slice, None/None pairs; apply_mask with M=1 and M>1 index matrices. '
        'quick = seeded sample stratified over mode-size patterns, thorough = bounded-exhaustive for order<=3 plus samples of order 4. Oracle: the same '
        'index expression applied to the harness-contracted dense array: same shape and same values (bit-equal for int-valued cores; fully-integer '
        'index -> 0-d). distinct = (structure, index expression); non-trivial = >=2 different index kinds or a singleton/length-1 position.')
from ..hist import RULE_SUFFIX as _RS
RULE = RULE + _RS
ASSUMPTIONS = ['index expressions the library documents as unsupported (short tuples without Ellipsis, Ellipsis in the middle, mixed int/slice pairs on operators, '
               'negative steps) are outside this workload - they must raise (C18)']
REQUIRED_REACH = ['_tt_base:TT.__getitem__', '_tt_base:TT.reduce_dims', '_aux_ops:apply_mask', '_tt_base:TT.apply_mask']
REQUIRED_COUNTS = {'history_value_checks': 200, 'branch:tuple/tensor': 1, 'branch:tuple/operator': 1, 'branch:bare-int': 1, 'branch:bare-slice': 1, 'branch:bare-ellipsis': 1,
                   'branch:ellipsis-leading': 1, 'branch:ellipsis-trailing': 1, 'branch:none': 1, 'apply_mask/M=1': 1, 'apply_mask/M>1': 1, 'apply_mask/M>16384': 1,
                   'kind:len1-slice': 1, 'kind:negative-int': 1, 'kind:stepped': 1, 'kind:singleton-mode': 1, 'exact_comparisons': 100}
LINE_FUNCS = ['TT.__getitem__', 'TT.reduce_dims', 'apply_mask']


def pos_options(n, with_empty):
    ints = sorted({0, n - 1, -1, -n})
    sl = [(None, None, None), (0, 1, None), (n - 1, n, None), (None, None, 2), (-1, None, None)]
    if n >= 2:
        sl += [(1, None, 2), (None, -1, None), (1, n, None)]
    if n >= 3:
        sl += [(-2, None, None), (0, 2, None)]
    # steps combined with negative starts / stops and stops beyond the end (python slice semantics: dense[a:b:c] for any a, b and c >= 1)
    if n >= 2:
        sl += [(-n, None, 2), (-2, None, 2), (None, -1, 2), (-n - 3, None, 2), (0, n + 5, 2)]
    if n >= 4:
        sl += [(-3, None, 2), (-4, -1, 2), (1, -1, 3), (-n, None, 3)]
    if with_empty:
        sl += [(n, None, None), (1, 1, None)]
    out = [['i', i] for i in ints]
    seen = set()
    for s in sl:
        if s not in seen:
            seen.add(s)
            out.append(['s', s[0], s[1], s[2]])
    return out


def none_patterns(d, rng, k):
    """positions (0..d) at which a None is inserted before the mode (d = at the end)"""
    pats = [()] + [(p,) for p in range(d + 1)] + [tuple(range(d + 1))]
    extra = []
    for _ in range(k):
        extra.append(tuple(sorted(rng.sample(range(d + 1), rng.randint(1, d + 1)))))
    return pats + extra


def with_nones(tokens, pat):
    out = []
    for p, t in enumerate(tokens):
        if p in pat:
            out.append('n')
        out.append(t)
    if len(tokens) in pat:
        out.append('n')
    return out


def cases(tier, seed):
    rng = random.Random('C08|%d' % seed)
    cs = []
    thorough = tier == 'thorough'
    sizes = (1, 2, 3)
    for d in (1, 2, 3):
        for N in itertools.product(sizes, repeat=d):
            N = list(N)
            opts = [pos_options(n, thorough) for n in N]
            combos = list(itertools.product(*opts))
            if not thorough:
                rng.shuffle(combos)
                combos = combos[:{1: 14, 2: 160, 3: 420}[d]]
            for ci, combo in enumerate(combos):
                pats = none_patterns(d, rng, 1)
                if thorough:
                    use = [pats[0]] + ([pats[1 + (ci % (len(pats) - 1))]] if ci % 3 == 0 else [])
                else:
                    use = [pats[0]] if ci % 2 else [pats[ci % len(pats)]]
                for pat in use:
                    cs.append({'gen': 'tt', 'N': N, 'R': gens.rank_profile(rng, d, 'rand', 3), 'idx': with_nones(list(combo), pat),
                               'dtype': ['f64', 'f64', 'f32', 'c128', 'c64'][ci % 5], 'vals': 'int' if ci % 5 else 'gauss'})
            # Ellipsis forms: leading / trailing with k explicit positions
            for k in range(0, d + 1):
                for rep in range(2 if not thorough else 8):
                    lead = [rng.choice(opts[d - k + j]) for j in range(k)]
                    trail = [rng.choice(opts[j]) for j in range(k)]
                    pat = rng.choice(none_patterns(k, rng, 0)) if rep % 2 else ()
                    cs.append({'gen': 'tt', 'N': N, 'R': gens.rank_profile(rng, d, 'rand', 3), 'idx': ['e'] + with_nones(lead, pat), 'dtype': 'f64', 'vals': 'int'})
                    cs.append({'gen': 'tt', 'N': N, 'R': gens.rank_profile(rng, d, 'rand', 3), 'idx': with_nones(trail, pat) + ['e'], 'dtype': 'f64', 'vals': 'int'})
    # order 4 (thorough: sizes incl. 5) sampled
    for i in range(2500 if not thorough else 60000):
        d = 4 if i % 4 else 5
        N = [rng.choice((1, 2, 3, 5) if thorough else (1, 2, 3)) for _ in range(d)]
        combo = [rng.choice(pos_options(n, thorough)) for n in N]
        pat = rng.choice(none_patterns(d, rng, 1)) if i % 3 == 0 else ()
        cs.append({'gen': 'tt', 'N': N, 'R': gens.rank_profile(rng, d, 'rand', 3), 'idx': with_nones(combo, pat), 'dtype': 'f64', 'vals': 'int'})
    # bare (non-tuple) index on order-1 tensors
    for n in (1, 2, 3, 5):
        for o in pos_options(n, thorough):
            cs.append({'gen': 'tt', 'N': [n], 'R': [1, 1], 'idx': [o], 'bare': True, 'dtype': 'f64', 'vals': 'int'})
        cs.append({'gen': 'tt', 'N': [n], 'R': [1, 1], 'idx': ['e'], 'bare': True, 'dtype': 'f64', 'vals': 'int'})
    for N in ([2, 3], [1, 2, 1], [3, 1]):
        cs.append({'gen': 'tt', 'N': N, 'R': gens.rank_profile(rng, len(N), 'rand', 3), 'idx': ['e'], 'bare': True, 'dtype': 'f64', 'vals': 'int'})
    # operators: pairs
    for d in (1, 2, 3):
        for rep in range({1: 200, 2: 1200, 3: 1200}[d] if not thorough else {1: 1000, 2: 20000, 3: 40000}[d]):
            M = [rng.choice(sizes) for _ in range(d)]
            N = [rng.choice(sizes) for _ in range(d)]
            rows, cols = [], []
            for k in range(d):
                kind = rng.choice(['ii', 'ss', 'ss', 'ss'])
                if kind == 'ii':
                    rows.append(rng.choice([o for o in pos_options(M[k], False) if o[0] == 'i']))
                    cols.append(rng.choice([o for o in pos_options(N[k], False) if o[0] == 'i']))
                else:
                    rows.append(rng.choice([o for o in pos_options(M[k], thorough) if o[0] == 's']))
                    cols.append(rng.choice([o for o in pos_options(N[k], thorough) if o[0] == 's']))
            pat = rng.choice(none_patterns(d, rng, 0)) if rep % 3 == 0 else ()
            cs.append({'gen': 'ttm', 'M': M, 'N': N, 'R': gens.rank_profile(rng, d, 'rand', 3), 'idx': with_nones(rows, pat) + with_nones(cols, pat),
                       'dtype': 'f64', 'vals': 'int'})
    # apply_mask
    for i in range(800 if not thorough else 10000):
        d = rng.randint(1, 4)
        N = [rng.choice((1, 2, 3, 4)) for _ in range(d)]
        cs.append({'gen': 'mask', 'N': N, 'R': gens.rank_profile(rng, d, 'rand', 3), 'Mrows': [1, 2, 7, 1, 30][i % 5], 'exhaustive': i % 7 == 0,
                   'dtype': ['f64', 'f32', 'c128', 'c64'][i % 4], 'vals': 'int'})
    # long index lists (a list evaluated in blocks must still return every row): lengths around powers of two and well beyond them
    for i, m in enumerate([1000, 4097, 16385, 20000, 40001, 70001] * (1 if not thorough else 6)):
        d = rng.randint(2, 4)
        cs.append({'gen': 'mask', 'N': [rng.choice((2, 3, 4)) for _ in range(d)], 'R': gens.rank_profile(rng, d, 'rand', 3), 'Mrows': m + (i // 6) * 1111, 'exhaustive': False,
                   'dtype': ['f64', 'c128', 'f32'][i % 3], 'vals': 'int'})
    # long index lists on tensors with LARGE ranks (rows x r x r' beyond 2^21), python-style negative entries included
    for i in range(4 if not thorough else 16):
        cs.append({'gen': 'mask', 'N': [[8, 8, 8, 8], [6, 7, 8], [8, 8, 8, 8], [4, 9, 9, 4]][i % 4], 'R': [[1, 8, 64, 8, 1], [1, 6, 8, 1], [1, 8, 32, 8, 1], [1, 4, 36, 4, 1]][i % 4],
                   'Mrows': [6000, 50000, 9000, 7001][i % 4], 'exhaustive': False, 'dtype': ['f64', 'c128'][i % 2], 'vals': 'int', 'neg': True})
    from .. import hist
    cs += hist.cases(PROP, tier, seed)
    return cs


def tok2idx(t):
    if t == 'n':
        return None
    if t == 'e':
        return Ellipsis
    if t[0] == 'i':
        return int(t[1])
    return slice(t[1], t[2], t[3])


def kinds_of(tokens, sizes):
    ks = set()
    for t in tokens:
        if t == 'n':
            ks.add('none')
        elif t == 'e':
            ks.add('ellipsis')
        elif t[0] == 'i':
            ks.add('negative-int' if t[1] < 0 else 'int')
        else:
            a, b, c = t[1], t[2], t[3]
            if c is not None:
                ks.add('stepped')
            elif a is None and b is None:
                ks.add('full')
            elif a is not None and b is not None and b - a == 1:
                ks.add('len1-slice')
            else:
                ks.add('range')
    if any(s == 1 for s in sizes):
        ks.add('singleton-mode')
    return ks


def run_case(case, ctx):
    g = gens.tgen(case['seed'])
    globals()['run_' + case['gen']](case, ctx, g)


def run_hist(case, ctx, g):
    from .. import hist
    hist.run(PROP, case, ctx)


def _check_index(ctx, case, x, dx, index, tokens, sizes, kindname, srep):
    import torchtt
    dt = dn.dtype_of(case['dtype'])
    ks = kinds_of(tokens, sizes)
    for k in ks:
        ctx.count('kind:' + k)
    what = '%s N=%s%s R=%s index=%s' % (kindname, case['N'], (' M=%s' % case['M']) if 'M' in case else '', case['R'], _fmt(tokens, case.get('bare')))
    try:
        ref = dx[index]
    except Exception as e:    # not a valid dense index: harness generator error
        raise AssertionError('generator produced an index invalid for the dense array: %s (%s)' % (what, e))
    all_int = all(t != 'n' and t != 'e' and t[0] == 'i' for t in tokens)
    cls = 'all-int' if all_int else '+'.join(sorted(ks - {'int', 'full', 'range', 'negative-int', 'stepped'})) or 'plain'
    key = 'getitem/%s/%s' % (kindname, cls)
    out = ctx.lib('getitem', lambda t, i: t[i], x, index)
    if isinstance(out, Raised):
        ctx.viol(key + '/clause=raises:%s@%s' % (out.type, out.func), '%s raised %r' % (what, out))
        return
    if isinstance(out, torchtt.TT):
        if all_int:
            ctx.viol(key + '/clause=not-a-scalar', '%s: fully integer index returned a TT object %s' % (what, out.N))
            return
        try:
            got = dn.D(out)
        except ValueError as e:
            ctx.viol(key + '/clause=ill-formed-result', '%s: %s' % (what, e))
            return
    elif torch.is_tensor(out):
        got = out
        if not all_int:
            # a dense tensor instead of a TT: shape/value still compared, and flagged as wrong kind
            if tuple(out.shape) == tuple(ref.shape) and ref.dim() > 0:
                ctx.viol(key + '/clause=returns-dense-not-TT', '%s returned a torch tensor of shape %s' % (what, list(out.shape)))
                return
    else:
        ctx.viol(key + '/clause=returns-non-tensor', '%s returned %s' % (what, type(out).__name__))
        return
    exact = case['vals'] == 'int'
    compare(ctx, key, got, ref, exact, dn.ueps(dt), srep, what)
    if len(ks - {'ellipsis'}) >= 2 or 'singleton-mode' in ks or 'len1-slice' in ks:
        ctx.nontrivial((kindname, tuple(case['N']), tuple(case.get('M', ())), str(tokens), case.get('bare', False)))


def _fmt(tokens, bare=False):
    def f(t):
        if t == 'n':
            return 'None'
        if t == 'e':
            return '...'
        if t[0] == 'i':
            return str(t[1])
        return '%s:%s%s' % ('' if t[1] is None else t[1], '' if t[2] is None else t[2], '' if t[3] is None else ':%s' % t[3])
    s = ', '.join(f(t) for t in tokens)
    return s if bare else '(' + s + ',)'


def run_tt(case, ctx, g):
    dt = dn.dtype_of(case['dtype'])
    x = gens.make_tt(case['N'], case['R'], dt, case['vals'], g)
    tokens = case['idx']
    bare = case.get('bare', False)
    index = tok2idx(tokens[0]) if bare else tuple(tok2idx(t) for t in tokens)
    if bare:
        ctx.count('branch:bare-' + ('ellipsis' if tokens[0] == 'e' else ('int' if tokens[0][0] == 'i' else 'slice')))
    else:
        ctx.count('branch:tuple/tensor')
        if tokens and tokens[0] == 'e':
            ctx.count('branch:ellipsis-leading')
        elif tokens and tokens[-1] == 'e':
            ctx.count('branch:ellipsis-trailing')
        if 'n' in tokens:
            ctx.count('branch:none')
    _check_index(ctx, case, x, dn.D(x), index, tokens, case['N'], 'tensor-bare' if bare else 'tensor', dn.s_rep(x))


def run_ttm(case, ctx, g):
    dt = dn.dtype_of(case['dtype'])
    A = gens.make_tt(case['N'], case['R'], dt, case['vals'], g, M=case['M'])
    tokens = case['idx']
    index = tuple(tok2idx(t) for t in tokens)
    ctx.count('branch:tuple/operator')
    _check_index(ctx, case, A, dn.D(A), index, tokens, case['M'] + case['N'], 'operator', dn.s_rep(A))


def run_mask(case, ctx, g):
    dt = dn.dtype_of(case['dtype'])
    N = case['N']
    d = len(N)
    x = gens.make_tt(N, case['R'], dt, case['vals'], g)
    dx = dn.D(x)
    if case['exhaustive']:
        I = torch.tensor(list(itertools.product(*[range(n) for n in N])), dtype=torch.int64).reshape(-1, d)
    else:
        I = torch.stack([torch.randint(0, n, (case['Mrows'],), generator=g) for n in N], dim=1)
    if not case['exhaustive'] and (case['seed'] % 3 != 0 or case.get('neg')) and I.shape[0] > 1:
        # python-style negative entries (accepted like in torch indexing) and repeated rows
        neg = torch.rand(I.shape, generator=g) < 0.3
        I = torch.where(neg, I - torch.tensor(N, dtype=I.dtype), I)
        if case['seed'] % 3 == 2:
            I = torch.cat([I, I[:max(1, I.shape[0] // 2)]], dim=0)
            I = I[torch.randperm(I.shape[0], generator=g)]
        ctx.count('apply_mask/negative-entries-or-repeated-rows')
    Mrows = I.shape[0]
    ctx.count('apply_mask/M=1' if Mrows == 1 else 'apply_mask/M>1')
    if Mrows > 16384:
        ctx.count('apply_mask/M>16384')
    key = 'apply_mask/%s' % ('M=1' if Mrows == 1 else 'M>1')
    what = 'apply_mask N=%s R=%s rows=%d %s' % (N, case['R'], Mrows, case['dtype'])
    ref = dx[tuple(I[:, k] for k in range(d))]
    # index matrices as int64 (default), int32, or a non-contiguous view (a column-permuted copy read back through a transpose)
    ik = case['seed'] % 3
    Iarg = I.to(torch.int32) if ik == 1 else (I.t().contiguous().t() if ik == 2 else I)
    ctx.count('apply_mask/index-kind:%s' % ['int64', 'int32', 'int64-noncontiguous'][ik])
    out = ctx.lib('apply_mask', lambda t, i: t.apply_mask(i), x, Iarg)
    if isinstance(out, Raised):
        ctx.viol(key + '/clause=raises:%s@%s' % (out.type, out.func), '%s raised %r' % (what, out))
        return
    if not torch.is_tensor(out):
        ctx.viol(key + '/clause=returns-non-tensor', '%s returned %s' % (what, type(out).__name__))
        return
    compare(ctx, key, out, ref, True, dn.ueps(dt), dn.s_rep(x), what)
    ctx.nontrivial(('mask', tuple(N), tuple(case['R']), Mrows, case['exhaustive'], case['dtype']))
