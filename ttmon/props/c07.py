"""C07 - norm, inner product, sums and bilinear forms equal their dense values."""
import random
import itertools
import torch

from .. import dense as dn
from .. import gens
from ..oracle import compare
from ..ctx import Raised

PROP = 'C07'
RULE = ('cases = {norm, norm(squared), each with/without an autograd-tracked core} x {tensor, operator} x order 1..5; sum() / sum(k) / sum(list) over ALL '
        'subsets of modes for order<=4 (tensor and operator); dot full and over all sorted subsets of modes; bilinear_form; real and complex, '
        'zero tensors. Oracle: dense reductions on harness-contracted arrays; bit-equality for sum/dot/bilinear on int-valued cores; norms within '
        '1e3*u*S_rep; values compared modulo size-1 modes (shape strictness of reductions is not part of C07). distinct = (op, variant, structure, '
        'subset, dtype); non-trivial = structure of order>=1 with a non-empty result; zero-tensor cases counted separately.')
from ..hist import RULE_SUFFIX as _RS
RULE = RULE + _RS
ASSUMPTIONS = ['axis arguments are in-range, non-negative, sorted and match the second operand (anything else is C18)',
               'sum/dot results are compared with both sides squeezed: reduce_dims documents dropping singleton modes']
REQUIRED_REACH = ['_tt_base:TT.norm', '_tt_base:TT.sum', '_extras:dot', '_extras:bilinear_form', '_aux_ops:bilinear_form_aux', '_tt_base:TT.reduce_dims']
REQUIRED_COUNTS = {'history_value_checks': 200, 'norm/tensor/order1/plain': 1, 'norm/tensor/order>1/plain': 1, 'norm/operator/order1/plain': 1, 'norm/operator/order>1/plain': 1,
                   'norm/tensor/order1/tracked': 1, 'norm/tensor/order>1/tracked': 1, 'norm/operator/order1/tracked': 1, 'norm/operator/order>1/tracked': 1,
                   'sum/tensor/all': 1, 'sum/tensor/partial': 1, 'sum/operator/all': 1, 'sum/operator/partial': 1, 'dot/full': 1, 'dot/partial': 1, 'norm/cancelling-terms': 10, 'mode>64': 8, 'sum/list-not-ascending': 1, 'dot/axis-not-ascending': 1,
                   'bilinear': 1, 'exact_comparisons': 50}
LINE_FUNCS = ['TT.norm', 'TT.sum', 'dot', 'bilinear_form_aux']
DT = ['f64', 'f64', 'f32', 'c128']


def subsets(d):
    out = []
    for k in range(1, d + 1):
        out += [list(c) for c in itertools.combinations(range(d), k)]
    return out


def cases(tier, seed):
    rng = random.Random('C07|%d' % seed)
    cs = []
    # norms
    reps = 40 if tier == 'quick' else 200
    for d in range(1, 6):
        for ttm in (False, True):
            for tracked in (False, True):
                for squared in (False, True):
                    for r in range(reps):
                        N = gens.modes(rng, d, (1, 2, 3, 4), distinct=False)
                        cs.append({'gen': 'norm', 'N': N, 'M': gens.modes(rng, d, (1, 2, 3), distinct=False) if ttm else None,
                                   'R': gens.rank_profile(rng, d, rng.choice(['rand', 'distinct', 'one']), 3), 'tracked': tracked, 'squared': squared,
                                   'dtype': DT[r % 4], 'vals': ['gauss', 'int', 'gauss', 'zero'][r % 4] if r < 8 else 'gauss',
                                   'track_idx': rng.randrange(d)})
    # norms of operands whose terms cancel: w = (x + delta*z) - x formed by the library (ranks 2R+Rz, value delta*z), larger modes (tall unfoldings), ranks that drop to 1 inside
    for i in range(60 if tier == 'quick' else 600):
        d = rng.choice([2, 3, 3, 4])
        while True:
            N = [rng.choice((2, 3, 6, 8, 10, 12, 16)) for _ in range(d)]
            if dn.prod(N) <= 20000:
                break
        R = gens.rank_profile(rng, d, rng.choice(['rand', 'distinct', 'one']), 4)
        if d >= 3 and i % 3 == 0:
            R = [1, 4] + [1] * (d - 1)
        cs.append({'gen': 'norm', 'N': N, 'M': None, 'R': R, 'tracked': i % 4 == 3, 'squared': i % 2 == 1, 'dtype': ['f64', 'c128'][(i // 2) % 2], 'vals': 'gauss',
                   'track_idx': rng.randrange(d), 'cancel': [1e-6, 1e-9, 1e-12][i % 3]})
    # sums over all subsets
    for d in range(1, 5 if tier == 'quick' else 6):
        for ttm in (False, True):
            subs = [None] + subsets(d)
            for sub in subs:
                for r in range(12 if tier == 'quick' else 40):
                    N = gens.modes(rng, d, (1, 2, 3, 4), distinct=(r % 2 == 0))
                    # a subset is a set: the list naming it may come in any order (reversed / rotated lists are 'list-rev' / 'list-rot')
                    for form in (['list', 'int'] if sub is not None and len(sub) == 1 else ['list', ['list-rev', 'list-rot'][r % 2]] if sub is not None and r % 3 == 0 else ['list']):
                        cs.append({'gen': 'sum', 'N': N, 'M': gens.modes(rng, d, (1, 2, 3), distinct=False) if ttm else None,
                                   'R': gens.rank_profile(rng, d, 'rand', 3), 'axes': sub, 'form': form, 'dtype': DT[(r + d) % 4], 'vals': 'int'})
    # dot full and partial
    for d in range(1, 5 if tier == 'quick' else 6):
        for sub in [None] + subsets(d):
            for r in range(12 if tier == 'quick' else 40):
                N = gens.modes(rng, d, (1, 2, 3, 4, 5), distinct=(r % 2 == 0))
                cs.append({'gen': 'dot', 'N': N, 'Ra': gens.rank_profile(rng, d, 'rand', 3), 'axes': sub, 'form': ['list', 'list-rev', 'list-rot', 'list'][r % 4] if sub is not None and len(sub) > 1 else 'list',
                           'Rb': gens.rank_profile(rng, d if sub is None else len(sub), 'rand', 3), 'dtype': ['f64', 'c128', 'f32', 'c128'][(r + d) % 4], 'vals': 'int'})
    # dot with operands of different dtypes (real with complex, single with double): the second operand is conjugated, nothing is cast down
    for i in range(60 if tier == 'quick' else 600):
        d = rng.randint(1, 4)
        N = gens.modes(rng, d, (1, 2, 3, 4), distinct=False)
        sub = sorted(rng.sample(range(d), rng.randint(1, d)))        # the partial form (the full inner product refuses operands of different dtypes: a torch error, not a wrong number)
        dta, dtb_ = [('f64', 'c128'), ('c128', 'f64'), ('f32', 'f64'), ('f64', 'f32'), ('f32', 'c128')][i % 5]
        cs.append({'gen': 'dot', 'N': N, 'Ra': gens.rank_profile(rng, d, 'rand', 3), 'axes': sub, 'form': 'list', 'Rb': gens.rank_profile(rng, d if sub is None else len(sub), 'rand', 3),
                   'dtype': dta, 'dtb': dtb_, 'vals': 'int'})
    # bilinear forms
    for i in range(1500 if tier == 'quick' else 15000):
        d = rng.randint(1, 4)
        cs.append({'gen': 'bilinear', 'M': gens.modes(rng, d, (1, 2, 3, 4), distinct=False), 'N': gens.modes(rng, d, (1, 2, 3, 5), distinct=False),
                   'Rx': gens.rank_profile(rng, d, 'rand', 3), 'RA': gens.rank_profile(rng, d, 'rand', 3), 'Ry': gens.rank_profile(rng, d, 'rand', 3),
                   'dtype': ['f64', 'c128', 'f32'][i % 3], 'vals': 'int' if i % 4 else 'gauss'})
    # one long mode (65 .. 1030, not a multiple of a power of two): size-dependent contraction strategies must not change the numbers
    for i in range(24 if tier == 'quick' else 200):
        d = rng.choice([1, 2, 3])
        N = [rng.choice((1, 2, 3)) for _ in range(d)]
        N[rng.randrange(d)] = rng.choice((65, 70, 100, 129, 257, 1030))
        R = gens.rank_profile(rng, d, 'rand', 3)
        dtp = ['f64', 'c128', 'f32'][i % 3]
        kind = i % 4
        if kind == 0:
            sub = None if i % 8 == 0 else sorted(rng.sample(range(d), rng.randint(1, d)))
            cs.append({'gen': 'dot', 'N': N, 'Ra': R, 'axes': sub, 'form': 'list', 'Rb': gens.rank_profile(rng, d if sub is None else len(sub), 'rand', 3), 'dtype': dtp if dtp != 'f32' else 'f64', 'vals': 'int', 'long': True})
        elif kind == 1:
            sub = None if i % 8 == 1 else sorted(rng.sample(range(d), rng.randint(1, d)))
            cs.append({'gen': 'sum', 'N': N, 'M': None, 'R': R, 'axes': sub, 'form': 'list', 'dtype': dtp, 'vals': 'int', 'long': True})
        elif kind == 2:
            cs.append({'gen': 'norm', 'N': N, 'M': None, 'R': R, 'tracked': i % 8 == 2, 'squared': i % 16 < 8, 'dtype': dtp, 'vals': 'gauss', 'track_idx': rng.randrange(d), 'long': True})
        else:
            cs.append({'gen': 'bilinear', 'M': N, 'N': [rng.choice((1, 2, 3)) for _ in range(d)], 'Rx': R, 'RA': gens.rank_profile(rng, d, 'rand', 2), 'Ry': gens.rank_profile(rng, d, 'rand', 2),
                       'dtype': dtp, 'vals': 'int' if i % 8 == 3 else 'gauss', 'long': True})
    from .. import hist
    cs += hist.cases(PROP, tier, seed)
    return cs


def _mag(x, case, ctx, salt=0):
    """overall magnitude 1e-15 / 1e15 on one core for a sixth of the non-integer cases each (reductions are homogeneous: the allowances scale along)"""
    import torchtt
    if case.get('vals') == 'int' or x.cores[0].dtype in (torch.float32, torch.complex64):
        return x
    k = (case['seed'] + salt) % 6
    if k not in (1, 4):
        return x
    f = 1e-15 if k == 1 else 1e15
    ctx.count('operand-magnitude:%g' % f)
    j = (case['seed'] // 6) % len(x.cores)
    return torchtt.TT([c * f if i_ == j else c for i_, c in enumerate(x.cores)])


def run_case(case, ctx):
    if case.get('long'):
        ctx.count('mode>64')
    g = gens.tgen(case['seed'])
    globals()['run_' + case['gen']](case, ctx, g)


def run_hist(case, ctx, g):
    from .. import hist
    hist.run(PROP, case, ctx)


def _scalar_out(ctx, key, what, out):
    if isinstance(out, Raised):
        ctx.viol(key + '/clause=raises:%s@%s' % (out.type, out.func), '%s raised %r' % (what, out))
        return None
    if not torch.is_tensor(out):
        try:
            out = torch.as_tensor(out)
        except Exception:
            ctx.viol(key + '/clause=returns-non-number', '%s returned %s' % (what, type(out).__name__))
            return None
    return out


def run_norm(case, ctx, g):
    dt = dn.dtype_of(case['dtype'])
    d = len(case['N'])
    x = _mag(gens.make_tt(case['N'], case['R'], dt, case['vals'], g, M=case['M']), case, ctx)
    if case.get('cancel'):
        z = gens.make_tt(case['N'], [1] + [1] * (d - 1) + [1], dt, 'gauss', g)
        delta = case['cancel']
        y = ctx.call('TT+TT', lambda a, b: a + delta * b, x, z)
        x = ctx.call('TT-TT', lambda a, b: a - b, y, x)
        ctx.count('norm/cancelling-terms')
    kind = 'operator' if case['M'] else 'tensor'
    variant = 'tracked' if case['tracked'] else 'plain'
    ev = 'norm/%s/order%s/%s' % (kind, '1' if d == 1 else '>1', variant)
    ctx.count(ev)
    key = ev + ('/squared' if case['squared'] else '')
    what = '%s N=%s M=%s R=%s %s vals=%s' % (key, case['N'], case['M'], case['R'], case['dtype'], case['vals'])
    ref = dn.fro(dn.D(x))
    ref = ref ** 2 if case['squared'] else ref
    srep = dn.s_rep(x)
    if case['tracked']:
        ctx.call('grad.watch', lambda t: t.cores[case['track_idx']].requires_grad_(True), x, inplace=(x,))
    out = _scalar_out(ctx, key, what, ctx.lib('TT.norm', lambda t: t.norm(case['squared']), x))
    if out is None:
        return
    if out.numel() != 1:
        ctx.viol(key + '/clause=shape', '%s returned shape %s' % (what, list(out.shape)))
        return
    val = complex(out.detach().reshape(-1)[0])
    u = dn.ueps(dt)
    tol = 1e3 * u * (srep ** 2 if case['squared'] else srep)
    err = abs(val - ref)
    ctx.metric('norm_err_over_allowance', err / tol if tol > 0 else (0.0 if err == 0 else float('inf')))
    if val != val or not err <= max(tol, 0.0):
        clause = 'nan' if val != val else 'value'
        ctx.viol(key + '/clause=' + clause, '%s: got %r, dense reference %r (allowance %.3e)' % (what, val, ref, tol))
    if case['vals'] == 'zero':
        ctx.count('zero_tensor_norms')
    else:
        ctx.nontrivial(('norm', kind, variant, case['squared'], tuple(case['N']), tuple(case['M'] or ()), tuple(case['R']), case['dtype']))


def _cmp_reduced(ctx, key, what, out, ref, exact, u, scale):
    """Compare a reduction result (TT / tensor / number) with the dense reference modulo size-1 modes."""
    import torchtt
    if isinstance(out, Raised):
        ctx.viol(key + '/clause=raises:%s@%s' % (out.type, out.func), '%s raised %r' % (what, out))
        return False
    if isinstance(out, torchtt.TT):
        # reduce_dims (documented) removes EVERY mode of size one from the result of a partial reduction: a size-one mode that is still there is a summed mode that was kept
        if len(out.N) > 1 and any(int(n_) == 1 and (not out.is_ttm or int(m_) == 1) for n_, m_ in zip(out.N, out.M if out.is_ttm else out.N)):
            ctx.viol(key + '/clause=shape/size-one-mode-kept', '%s: result %s keeps a mode of size one (dense reduction: shape %s)' % (what, [int(n_) for n_ in out.N], list(ref.shape)))
            return False
        try:
            got = dn.D(out)
        except ValueError as e:
            ctx.viol(key + '/clause=ill-formed-result', '%s: %s' % (what, e))
            return False
    elif torch.is_tensor(out):
        got = out
    else:
        try:
            got = torch.as_tensor(out)
        except Exception:
            ctx.viol(key + '/clause=returns-non-number', '%s returned %s' % (what, type(out).__name__))
            return False
    return compare(ctx, key, got.squeeze(), ref.squeeze(), exact, u, scale, what)


def _order(axes, form):
    """The same set of modes written in another order (the library documents the modes as a set: dot() matches b against sorted(axis))."""
    axes = list(axes)
    if form == 'list-rev':
        return axes[::-1]
    if form == 'list-rot':
        return axes[1:] + axes[:1]
    return axes


def run_sum(case, ctx, g):
    dt = dn.dtype_of(case['dtype'])
    d = len(case['N'])
    ttm = case['M'] is not None
    x = _mag(gens.make_tt(case['N'], case['R'], dt, case['vals'], g, M=case['M']), case, ctx)
    axes = case['axes']
    kind = 'operator' if ttm else 'tensor'
    ev = 'sum/%s/%s' % (kind, 'all' if axes is None else 'partial')
    ctx.count(ev)
    key = ev + ('' if axes is None else ('/every-mode' if len(axes) == d else '/subset'))
    what = '%s N=%s M=%s R=%s axes=%s form=%s %s' % (ev, case['N'], case['M'], case['R'], axes, case['form'], case['dtype'])
    dx = dn.D(x)
    if axes is None:
        ref = dx.sum()
    else:
        ref = dx.sum(dim=axes + [d + a for a in axes] if ttm else axes)
    exact = gens.exact_ok(dt, gens.abs_bound(x) * max(1, dx.numel()))
    srep = dn.s_rep(x) * max(1, dx.numel()) ** 0.5
    if axes is None:
        out = ctx.lib('TT.sum()', lambda t: t.sum(), x)
    elif case['form'] == 'int':
        out = ctx.lib('TT.sum(int)', lambda t: t.sum(axes[0]), x)
    else:
        out = ctx.lib('TT.sum(list)', lambda t: t.sum(_order(axes, case['form'])), x)
        if case['form'] != 'list':
            ctx.count('sum/list-not-ascending')
    _cmp_reduced(ctx, key, what, out, ref, exact, dn.ueps(dt), srep)
    ctx.nontrivial(('sum', kind, tuple(case['N']), tuple(case['M'] or ()), tuple(case['R']), tuple(axes) if axes else None, case['form'], case['dtype']))


def run_dot(case, ctx, g):
    import torchtt
    dt = dn.dtype_of(case['dtype'])
    N, axes = case['N'], case['axes']
    d = len(N)
    a = _mag(gens.make_tt(N, case['Ra'], dt, case['vals'], g), case, ctx)
    Nb = N if axes is None else [N[i] for i in axes]
    dtb = dn.dtype_of(case['dtb']) if case.get('dtb') else dt
    b = gens.make_tt(Nb, case['Rb'], dtb, case['vals'], g)
    if dtb != dt:
        ctx.count('dot/operands-of-different-dtypes')
    ev = 'dot/%s' % ('full' if axes is None else 'partial')
    ctx.count(ev)
    key = ev + ('' if axes is None else ('/every-mode' if len(axes) == d else '/subset'))
    what = '%s N=%s Ra=%s axes=%s Rb=%s %s' % (ev, N, case['Ra'], axes, case['Rb'], case['dtype'])
    da, db = dn.D(a), dn.D(b)
    if da.dtype != db.dtype:
        da, db = da.to(torch.complex128), db.to(torch.complex128)
    if axes is None:
        ref = (da * db.conj()).sum()
    else:
        ref = torch.tensordot(da, db.conj(), dims=(axes, list(range(len(axes)))))
    exact = gens.exact_ok(dt, gens.abs_bound(a) * gens.abs_bound(b) * max(1, da.numel())) and gens.exact_ok(dtb, gens.abs_bound(a) * gens.abs_bound(b) * max(1, da.numel()))
    scale = dn.s_rep(a) * dn.s_rep(b)
    if axes is None:
        out = ctx.lib('dot', torchtt.dot, a, b)
    else:
        out = ctx.lib('dot(axis)', torchtt.dot, a, b, _order(axes, case.get('form', 'list')))
        if case.get('form', 'list') != 'list':
            ctx.count('dot/axis-not-ascending')
    _cmp_reduced(ctx, key, what, out, ref, exact, dn.ueps(dt), scale)
    ctx.nontrivial(('dot', tuple(N), tuple(case['Ra']), tuple(axes) if axes else None, tuple(case['Rb']), case['dtype']))


def run_bilinear(case, ctx, g):
    import torchtt
    dt = dn.dtype_of(case['dtype'])
    M, N = case['M'], case['N']
    d = len(M)
    x = gens.make_tt(M, case['Rx'], dt, case['vals'], g)
    A = gens.make_tt(N, case['RA'], dt, case['vals'], g, M=M)
    y = _mag(gens.make_tt(N, case['Ry'], dt, case['vals'], g), case, ctx, salt=3)
    ctx.count('bilinear')
    key = 'bilinear'
    what = 'bilinear_form M=%s N=%s Rx=%s RA=%s Ry=%s %s %s' % (M, N, case['Rx'], case['RA'], case['Ry'], case['dtype'], case['vals'])
    dx, dA, dy = dn.D(x), dn.D(A), dn.D(y)
    ref = torch.tensordot(dx.conj(), torch.tensordot(dA, dy, dims=d), dims=d)
    exact = case['vals'] == 'int' and gens.exact_ok(dt, gens.abs_bound(x) * gens.abs_bound(A) * gens.abs_bound(y) * dx.numel() * dy.numel())
    scale = dn.s_rep(x) * dn.s_rep(A) * dn.s_rep(y)
    out = ctx.lib('bilinear_form', torchtt.bilinear_form, x, A, y)
    _cmp_reduced(ctx, key, what, out, ref, exact, dn.ueps(dt), scale)
    ctx.nontrivial(('bilinear', tuple(M), tuple(N), tuple(case['Rx']), tuple(case['RA']), tuple(case['Ry']), case['dtype'], case['vals']))
