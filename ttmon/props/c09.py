"""C09 - cat, pad, diag, mprod, to_ttm, conj, clone are exact."""
import random
import itertools
import torch
import torch.nn.functional as F

from .. import dense as dn
from .. import gens
from ..oracle import compare, expect_tt, check_dtype
from ..ctx import Raised

PROP = 'C09'
RULE = ('cases = cat over every axis with 2..3 operands (different ranks, a size-1 operand); pad of tensors with all widths 0..2 on every trailing subset of '
        'modes and fill in {0, 1.5, -2}; pad of operators with full-length padding tuples (zero widths allowed); diag both directions (square and rectangular '
        'operators); mprod single mode and lists of modes; to_ttm; conj; clone; order 1..4, f64/f32/c128. Oracle: torch.cat / F.pad / block reference / '
        'diagonal by torch.diagonal / tensordot / reshape on harness-contracted dense arrays; bit-equality on int-valued cores. The pad oracle names the '
        'failed region: interior block / fully padded corner / mixed strip. distinct = (op, structure, parameters, dtype); non-trivial = non-zero reference.')
from ..hist import RULE_SUFFIX as _RS
RULE = RULE + _RS
ASSUMPTIONS = ['pad of an operator with fewer paddings than modes raises RankMismatch (an exception, not a wrong tensor): outside the workload',
               'fill values 0, 1.5, -2 (exactly representable: bit-exact comparison on int-valued cores) and 0.3, -1.7e-3 (not representable in any binary format: compared to working precision of the operand dtype)']
REQUIRED_REACH = ['_extras:cat', '_extras:pad', '_extras:diag', '_tt_base:TT.mprod', '_tt_base:TT.to_ttm', '_tt_base:TT.conj', '_tt_base:TT.clone']
REQUIRED_COUNTS = {'history_value_checks': 200, 'cat': 1, 'cat/same-object-listed-twice': 5, 'pad/tensor': 1, 'pad/operator': 1, 'pad/operator/fewer-paddings-than-modes': 5, 'diag/tensor->operator': 1, 'diag/operator->tensor': 1, 'mprod/single': 1, 'mprod/list': 1,
                   'to_ttm': 1, 'conj': 1, 'clone': 1, 'exact_comparisons': 100}
LINE_FUNCS = ['cat', 'pad', 'diag', 'TT.mprod']
DT = ['f64', 'f64', 'f32', 'c128']


def cases(tier, seed):
    rng = random.Random('C09|%d' % seed)
    T = tier == 'thorough'
    cs = []
    # cat
    for d in range(1, 5):
        for dim in range(d):
            for nop in (2, 3):
                for rep in range(10 if not T else 80):
                    base = [rng.choice((1, 2, 3, 4)) for _ in range(d)]
                    ops = []
                    for j in range(nop):
                        N = list(base)
                        N[dim] = 1 if (rep + j) % 3 == 0 else rng.choice((1, 2, 3, 5))
                        ops.append({'N': N, 'R': gens.rank_profile(rng, d, rng.choice(['rand', 'distinct', 'one']), 3)})
                    cs.append({'gen': 'cat', 'ops': ops, 'dim': dim, 'dtype': DT[rep % 4], 'vals': 'int'})
    # pad tensors: every trailing subset, widths 0..2
    for d in range(1, 5):
        for k in range(1, d + 1):
            widths = list(itertools.product(range(3), repeat=2))     # (before, after)
            combos = list(itertools.product(widths, repeat=k))
            if len(combos) > (40 if not T else 600):
                rng.shuffle(combos)
                combos = combos[:(40 if not T else 600)]
            for ci, pads in enumerate(combos):
                for value in (0.0, 1.5, -2.0, 0.3, -1.7e-3):
                    N = [rng.choice((1, 2, 3)) for _ in range(d)]
                    cs.append({'gen': 'pad', 'N': N, 'M': None, 'R': gens.rank_profile(rng, d, ['rand', 'one', 'distinct'][ci % 3], 3),
                               'padding': [list(p) for p in pads], 'value': value, 'dtype': DT[ci % 4], 'vals': 'int'})
    # pad operators: full-length tuples
    for d in range(1, 4):
        widths = list(itertools.product(range(3), repeat=2))
        combos = list(itertools.product(widths, repeat=d))
        rng.shuffle(combos)
        for ci, pads in enumerate(combos[:(80 if not T else 1000)]):
            for value in (0.0, 1.5, -2.0, 0.3, -1.7e-3):
                cs.append({'gen': 'pad', 'N': [rng.choice((1, 2, 3)) for _ in range(d)], 'M': [rng.choice((1, 2, 3)) for _ in range(d)],
                           'R': gens.rank_profile(rng, d, 'rand', 3), 'padding': [list(p) for p in pads], 'value': value, 'dtype': DT[ci % 4], 'vals': 'int'})
    # pad operators: paddings for the trailing k < d modes only (defect #45: used to raise RankMismatch)
    for d in range(2, 4):
        for k in range(1, d):
            widths = list(itertools.product(range(3), repeat=2))
            combos = list(itertools.product(widths, repeat=k))
            rng.shuffle(combos)
            for ci, pads in enumerate(combos[:(12 if not T else 120)]):
                for value in (0.0, 1.5, -2.0):
                    cs.append({'gen': 'pad', 'N': [rng.choice((1, 2, 3)) for _ in range(d)], 'M': [rng.choice((1, 2, 3)) for _ in range(d)],
                               'R': gens.rank_profile(rng, d, 'rand', 3), 'padding': [list(p) for p in pads], 'value': value, 'dtype': DT[ci % 4], 'vals': 'int'})
    # diag, mprod, to_ttm, conj, clone
    for i in range(2000 if not T else 30000):
        d = rng.randint(1, 4)
        N = [rng.choice((1, 2, 3, 4)) for _ in range(d)]
        op = ['diag_t', 'diag_m', 'diag_m_rect', 'mprod1', 'mprodL', 'to_ttm', 'conj', 'clone', 'conj_m', 'clone_m'][i % 10]
        c = {'gen': 'misc', 'op': op, 'N': N, 'M': [rng.choice((1, 2, 3, 4)) for _ in range(d)], 'R': gens.rank_profile(rng, d, rng.choice(['rand', 'distinct', 'one']), 3),
             'dtype': DT[(i // 10) % 4], 'vals': 'int'}
        if op == 'mprod1':
            c['modes'] = [rng.randrange(d)]
            c['L'] = [rng.choice((1, 2, 3, 5))]
        if op == 'mprodL':
            k = rng.randint(1, d)
            c['modes'] = rng.sample(range(d), k)
            c['L'] = [rng.choice((1, 2, 3, 5)) for _ in range(k)]
            if i % 3 == 0:
                # the same mode listed more than once: the matrices are applied in sequence (the second one acts on the result of the first)
                c['modes'] = c['modes'] + [rng.choice(c['modes'])]
                c['L'] = c['L'] + [rng.choice((1, 2, 3))]
        cs.append(c)
    from .. import hist
    cs += hist.cases(PROP, tier, seed)
    return cs


def run_case(case, ctx):
    g = gens.tgen(case['seed'])
    globals()['run_' + case['gen']](case, ctx, g)


def run_hist(case, ctx, g):
    from .. import hist
    hist.run(PROP, case, ctx)


def run_cat(case, ctx, g):
    import torchtt
    dt = dn.dtype_of(case['dtype'])
    ts = [gens.make_tt(o['N'], o['R'], dt, case['vals'], g) for o in case['ops']]
    if case['seed'] % 4 == 1 and len(ts) >= 2:
        # the same OBJECT listed more than once (cat((a, a)), cat((a, b, a))): every occurrence is its own block
        ts[-1] = ts[0]
        ctx.count('cat/same-object-listed-twice')
    dim = case['dim']
    ctx.count('cat')
    key = 'cat/%dops' % len(ts)
    what = 'cat dim=%d ops=%s %s%s' % (dim, [(o['N'], o['R']) for o in case['ops']], case['dtype'], ' (last operand IS the first)' if ts[-1] is ts[0] and len(ts) > 1 else '')
    if len(ts) > 1 and ts[-1] is ts[0] and list(ts[0].N) != [int(n_) for n_ in case['ops'][-1]['N']]:
        ts[-1] = ts[0]      # (shapes along `dim` may differ between the generated operands: the repeated object brings its own)
    ref = torch.cat([dn.D(t) for t in ts], dim)
    bound = sum(gens.abs_bound(t) for t in ts)
    scale = sum(dn.s_rep(t) for t in ts)
    res = ctx.lib('cat', torchtt.cat, tuple(ts) if case['seed'] % 2 else list(ts), dim)
    if not expect_tt(ctx, key, res, what):
        return
    try:
        got = dn.D(res)
    except ValueError as e:
        ctx.viol(key + '/clause=ill-formed-result', '%s: %s' % (what, e))
        return
    compare(ctx, key, got, ref, gens.exact_ok(dt, bound), dn.ueps(dt), scale, what)
    check_dtype(ctx, key, res, dt, what)
    if dn.fro(ref) > 0:
        ctx.nontrivial(('cat', dim, str(case['ops']), case['dtype']))


def pad_regions(shape_in, before, dims):
    """boolean masks over the padded array: interior, all-padded corner, mixed."""
    d = len(shape_in)
    out_shape = [shape_in[k] + before[k][0] + before[k][1] for k in range(d)]
    grids = torch.meshgrid(*[torch.arange(s) for s in out_shape], indexing='ij') if d > 0 else []
    inpad = []
    for k in range(d):
        b = before[k][0]
        inpad.append((grids[k] < b) | (grids[k] >= b + shape_in[k]))
    anyp = torch.zeros(out_shape, dtype=torch.bool)
    allp = torch.ones(out_shape, dtype=torch.bool)
    for k in range(d):
        anyp |= inpad[k]
        allp &= inpad[k]
    return ~anyp, allp, anyp & ~allp


def run_pad(case, ctx, g):
    import torchtt
    dt = dn.dtype_of(case['dtype'])
    N, M, R = case['N'], case['M'], case['R']
    d = len(N)
    ttm = M is not None
    x = gens.make_tt(N, R, dt, case['vals'], g, M=M)
    padding = tuple(tuple(p) for p in case['padding'])
    value = case['value']
    k = len(padding)
    full_pads = [(0, 0)] * (d - k) + list(padding)
    dx = dn.D(x)
    what = 'pad %s N=%s M=%s R=%s padding=%s value=%s %s' % ('operator' if ttm else 'tensor', N, M, R, padding, value, case['dtype'])
    vclass = 'value=0' if value == 0 else 'value!=0'
    oclass = 'order1' if d == 1 else 'order>=2'
    if not ttm:
        ctx.count('pad/tensor')
        key = 'pad/tensor/%s/%s' % (vclass, oclass)
        flat = []
        for (b, a) in reversed(full_pads):
            flat += [b, a]
        if dx.is_complex():
            ref = torch.complex(F.pad(dx.real, flat, value=value), F.pad(dx.imag, flat, value=0.0))
        else:
            ref = F.pad(dx, flat, value=value)
        interior, corner, mixed = pad_regions(N, full_pads, None)
    else:
        ctx.count('pad/operator')
        if k < d:
            ctx.count('pad/operator/fewer-paddings-than-modes')
        key = 'pad/operator/%s/%s' % (vclass, oclass)
        Mo = [M[i] + full_pads[i][0] + full_pads[i][1] for i in range(d)]
        No = [N[i] + full_pads[i][0] + full_pads[i][1] for i in range(d)]
        ref = torch.zeros(Mo + No, dtype=dx.dtype)
        sl = tuple(slice(full_pads[i][0], full_pads[i][0] + M[i]) for i in range(d)) + tuple(slice(full_pads[i][0], full_pads[i][0] + N[i]) for i in range(d))
        ref[sl] = dx
        # leading corner: value * identity over all modes
        lead = torch.ones([], dtype=dx.dtype) * value
        trail = torch.ones([], dtype=dx.dtype) * value
        for i in range(d):
            lead = torch.tensordot(lead, torch.eye(full_pads[i][0], dtype=dx.dtype), dims=0)
            trail = torch.tensordot(trail, torch.eye(full_pads[i][1], dtype=dx.dtype), dims=0)
        perm = [2 * i for i in range(d)] + [2 * i + 1 for i in range(d)]
        lead = lead.permute(perm)
        trail = trail.permute(perm)
        sl_lead = tuple(slice(0, full_pads[i][0]) for i in range(d)) * 2
        ref[sl_lead] = ref[sl_lead] + lead
        sl_trail = tuple(slice(full_pads[i][0] + M[i], Mo[i]) for i in range(d)) + tuple(slice(full_pads[i][0] + N[i], No[i]) for i in range(d))
        ref[sl_trail] = ref[sl_trail] + trail
        interior = torch.zeros(Mo + No, dtype=torch.bool)
        interior[sl] = True
        corner = torch.zeros(Mo + No, dtype=torch.bool)
        corner[sl_lead] = True
        corner[sl_trail] = True
        mixed = ~(interior | corner)
    res = ctx.lib('pad', torchtt.pad, x, padding if case['seed'] % 3 else [list(p_) for p_ in padding], value)
    if not expect_tt(ctx, key, res, what):
        return
    try:
        got = dn.D(res)
    except ValueError as e:
        ctx.viol(key + '/clause=ill-formed-result', '%s: %s' % (what, e))
        return
    if tuple(got.shape) != tuple(ref.shape):
        ctx.viol(key + '/clause=shape', '%s: result shape %s, reference %s' % (what, list(got.shape), list(ref.shape)))
        return
    exact = gens.exact_ok(dt, gens.abs_bound(x) * 8 + 8) and float(value * 2).is_integer()
    u, srep = dn.ueps(dt), dn.s_rep(x) + abs(value) * max(1, ref.numel()) ** 0.5
    for name, mask in (('interior-block', interior), ('fully-padded-corner', corner), ('mixed-strip', mixed)):
        if int(mask.sum()) == 0:
            continue
        ctx.count('pad-region:' + name)
        compare(ctx, key + '/region=' + name, got[mask], ref[mask], exact, u, srep, what + ' region ' + name)
    check_dtype(ctx, key, res, dt, what)
    if dn.fro(ref) > 0:
        ctx.nontrivial(('pad', ttm, tuple(N), tuple(M or ()), tuple(R), str(padding), value, case['dtype']))


def run_misc(case, ctx, g):
    import torchtt
    dt = dn.dtype_of(case['dtype'])
    op, N, M, R = case['op'], case['N'], case['M'], case['R']
    d = len(N)
    what = '%s N=%s M=%s R=%s %s' % (op, N, M, R, case['dtype'])
    if op == 'diag_t':
        x = gens.make_tt(N, R, dt, case['vals'], g)
        dx = dn.D(x)
        ref = torch.zeros(N + N, dtype=dx.dtype)
        for idx in itertools.product(*[range(n) for n in N]):
            ref[idx + idx] = dx[idx]
        ctx.count('diag/tensor->operator')
        key = 'diag/tensor->operator'
        res = ctx.lib('diag', torchtt.diag, x)
        want_ttm = True
    elif op in ('diag_m', 'diag_m_rect'):
        Mm = N if op == 'diag_m' else M
        x = gens.make_tt(N, R, dt, case['vals'], g, M=Mm)
        dx = dn.D(x)
        ref = dx
        for k in range(d):
            # diagonal of the (row k, column k) pair; torch.diagonal appends the diagonal as last dim
            ref = torch.diagonal(ref, dim1=0, dim2=d - k)
        ctx.count('diag/operator->tensor')
        key = 'diag/operator->tensor/%s' % ('square' if op == 'diag_m' else 'rectangular')
        res = ctx.lib('diag', torchtt.diag, x)
        want_ttm = False
    elif op in ('mprod1', 'mprodL'):
        x = gens.make_tt(N, R, dt, case['vals'], g)
        modes, Ls = case['modes'], case['L']
        cur = list(N)
        mats = []
        nearid = False
        for l, m in zip(Ls, modes):
            A_ = gens.values([l, cur[m]], dt, 'int', g)      # column count = CURRENT size of the mode (a repeated mode has changed size)
            if l == cur[m] and l >= 2 and case['seed'] % 4 == 2 and dt in (torch.float64, torch.complex128):
                # a square factor CLOSE TO (but not equal to) the identity: a slightly rescaled axis, or the identity plus 2e-9 noise - it still has to be applied
                eye_ = torch.eye(l, dtype=dt)
                A_ = (torch.diag(1.0 + 1e-6 * torch.arange(1, l + 1, dtype=torch.float64)).to(dt) if case['seed'] // 4 % 2 == 0 else eye_ + 2e-9 * gens.values([l, l], dt, 'gauss', g))
                nearid = True
            mats.append(A_)
            cur[m] = l
        if nearid:
            ctx.count('mprod/factor-close-to-identity')
        ref = dn.D(x)
        for m, A in zip(modes, mats):
            ref = torch.tensordot(ref, dn.to_up(A), dims=([m], [1])).movedim(-1, m)
        what += ' modes=%s L=%s' % (modes, Ls)
        if op == 'mprod1':
            ctx.count('mprod/single')
            key = 'mprod/single'
            # the mode as a non-negative index or (every third case) as the equivalent negative one, which the routine accepts like torch does
            mneg = case['seed'] % 3 == 1
            if mneg:
                ctx.count('mprod/negative-mode-index')
            res = ctx.lib('mprod', lambda t, a, m: t.mprod(a, m), x, mats[0], modes[0] - d if mneg else modes[0])
        else:
            ctx.count('mprod/list')
            key = 'mprod/list'
            mneg = case['seed'] % 3 == 1
            if mneg:
                ctx.count('mprod/negative-mode-index')
            passed = [m_ - d if (mneg and j_ % 2 == 0) else m_ for j_, m_ in enumerate(modes)]
            before = list(passed)
            res = ctx.lib('mprod(list)', lambda t, a, m: t.mprod(a, m), x, mats, passed)
            if passed != before:
                # the caller's list of modes is an argument, not scratch space: written-back normalised indices mean another tensor order next time
                ctx.viol(key + '/clause=callers-mode-list-modified', '%s: list passed as %s is %s after the call' % (what, before, passed))
        want_ttm = False
    elif op == 'to_ttm':
        x = gens.make_tt(N, R, dt, case['vals'], g)
        ref = dn.D(x).reshape(N + [1] * d)
        ctx.count('to_ttm')
        key = 'to_ttm'
        res = ctx.lib('to_ttm', lambda t: t.to_ttm(), x)
        want_ttm = True
    else:
        ttm = op.endswith('_m')
        x = gens.make_tt(N, R, dt, case['vals'], g, M=M if ttm else None)
        mixed = dt.is_complex and case['seed'] % 3 == 0
        if mixed:
            # a complex-valued object whose leading cores are stored REAL (what kron(real, complex) or rank1TT of mixed vectors produce)
            rr_ = random.Random(case['seed'])
            j_ = rr_.randint(1, max(1, d - 1))      # real prefix of length j_, complex suffix (the layout full() supports on the unchanged tree)
            cs_ = [c.real.clone() if k_ < j_ else c for k_, c in enumerate(x.cores)]
            x = torchtt.TT(cs_)
            ctx.count('operand:mixed-real-complex-cores')
        if op.startswith('conj'):
            ref = dn.D(x).conj()
            ctx.count('conj')
            key = 'conj/%s' % ('operator' if ttm else 'tensor')
            res = ctx.lib('conj', lambda t: t.conj(), x)
        else:
            ref = dn.D(x)
            ctx.count('clone')
            key = 'clone/%s' % ('operator' if ttm else 'tensor')
            res = ctx.lib('clone', lambda t: t.clone(), x)
        want_ttm = ttm
    if not expect_tt(ctx, key, res, what):
        return
    try:
        got = dn.D(res)
    except ValueError as e:
        ctx.viol(key + '/clause=ill-formed-result', '%s: %s' % (what, e))
        return
    exact = gens.exact_ok(dt, gens.abs_bound(x) * 3 ** 4 * 5 ** 4) and not (op in ('mprod1', 'mprodL') and nearid)
    if op in ('mprod1', 'mprodL') and nearid and tuple(got.shape) == tuple(dn.D(x).shape) == tuple(ref.shape):
        # the increment (A - I) x is what matters: compare got - x with ref - x at roundoff level of x (1e3 u S_rep(x)), far below the 1e-9 .. 1e-6 increment
        compare(ctx, key + '/near-identity-factor', got - dn.D(x), ref - dn.D(x), False, dn.ueps(dt), dn.s_rep(x), what)
    else:
        compare(ctx, key, got, ref, exact, dn.ueps(dt), dn.s_rep(x) * 100, what)
    if not (op in ('conj', 'clone', 'conj_m', 'clone_m') and mixed):
        check_dtype(ctx, key, res, dt, what)
    if bool(res.is_ttm) != want_ttm:
        ctx.viol(key + '/clause=kind', '%s: result is_ttm=%s' % (what, res.is_ttm))
    if op.startswith('clone'):
        # no storage overlap: compare storage ranges, not just base pointers
        def rng_of(c):
            st = c.untyped_storage()
            return (st.data_ptr(), st.data_ptr() + st.nbytes())
        a = [rng_of(c) for c in x.cores if c.numel()]
        b = [rng_of(c) for c in res.cores if c.numel()]
        if any(p[0] < q[1] and q[0] < p[1] for p in a for q in b):
            ctx.viol(key + '/clause=shares-storage', '%s: clone shares storage with the original' % what)
    if dn.fro(ref) > 0:
        ctx.nontrivial(('misc', op, tuple(N), tuple(M), tuple(R), str(case.get('modes')), str(case.get('L')), case['dtype']))
