"""C10 - reshape, permute and QTT conversion preserve the tensor up to the given eps."""
import math
import random
import itertools
import torch

from .. import dense as dn
from .. import gens
from ..ctx import Raised

PROP = 'C10'
C_EPS = 10.0
RULE = ('cases = reshape of TT tensors of order<=4 (sizes from {1,2,3,4,6}) to every ordered factorisation/merge of the element count with singleton modes inserted at the '
        'front/middle/end (quick: stratified sample, thorough: capped enumeration per source shape); reshape of TT matrices on (M,N) pairs incl. leading/middle/trailing (1,1); '
        'permute over ALL permutations of <=5 modes (thorough <=6) for tensors and operators; to_qtt on power-of-two shapes (tensor and square operator, mode_size 2, few with 3) and '
        'the qtt_to_tens round trip; eps from the default to 1e-1 with decaying/graded/Gaussian values so truncation is really active; real/complex/f32. '
        'Oracle: requested mode sizes exactly; ||D(y) - reshape/permute(D(x))|| <= 10*eps*||x|| + 1e3*u*S_rep (sign/phase/scale changes are O(||x||) and always caught). '
        'distinct = (op, source structure, target, eps class, dtype); non-trivial = order>=2 or a singleton insertion.')
from ..hist import RULE_SUFFIX as _RS
RULE = RULE + _RS
ASSUMPTIONS = ['"a small multiple of eps" is fixed a priori as 10*eps; the maximum observed ratio is reported',
               'qtt_to_tens is exercised on tensors only (the property says tensors); mode sizes up to 32']
REQUIRED_REACH = ['_extras:reshape', '_extras:permute', '_tt_base:TT.to_qtt', '_tt_base:TT.qtt_to_tens', '_decomposition:rl_orthogonal']
REQUIRED_COUNTS = {'history_value_checks': 200, 'reshape/tensor': 1, 'reshape/operator': 1, 'permute/tensor': 1, 'permute/operator': 1, 'to_qtt/tensor': 1, 'to_qtt/operator': 1, 'qtt_roundtrip': 1,
                   'target:trailing-ones': 1, 'target:leading-ones': 1, 'target:split': 1, 'target:merge': 1, 'truncation_active': 5}
LINE_FUNCS = ['reshape', 'permute', 'TT.to_qtt', 'TT.qtt_to_tens']
CASE_TIMEOUT = {'quick': 120, 'thorough': 300}
EPS = [None, None, 1e-10, 1e-6, 1e-3, 1e-1]
DTS = ['f64', 'f64', 'c128', 'f32']


def factorizations(n, maxlen=4):
    """ordered factorisations of n into factors >= 2 (the empty tuple for n == 1)"""
    if n == 1:
        return [()]
    out = []

    def rec(rem, acc):
        if rem == 1:
            out.append(tuple(acc))
            return
        if len(acc) >= maxlen:
            return
        for f in range(2, rem + 1):
            if rem % f == 0:
                rec(rem // f, acc + [f])
    rec(n, [])
    return out


def with_ones(f, rng, allv=False):
    f = list(f)
    vs = [f or [1], [1] + f, f + [1], [1] + f + [1], f + [1, 1]]
    if len(f) >= 2:
        k = rng.randrange(1, len(f))
        vs.append(f[:k] + [1] + f[k:])
    vs = [v for v in vs if v]
    return vs if allv else [rng.choice(vs)]


def cases(tier, seed):
    rng = random.Random('C10|%d' % seed)
    T = tier == 'thorough'
    cs = []
    # reshape tensors
    shapes = []
    for d in (1, 2, 3, 4):
        shapes += [list(s) for s in itertools.product((1, 2, 3, 4, 6), repeat=d)]
    rng.shuffle(shapes)
    for si, N in enumerate(shapes[:(450 if not T else len(shapes))]):
        n = dn.prod(N)
        facs = factorizations(n)
        rng.shuffle(facs)
        for fi, f in enumerate(facs[:(5 if not T else 20)]):
            for tgt in with_ones(f, rng, allv=(fi == 0 and si % 4 == 0)):
                i = len(cs)
                cs.append({'gen': 'reshape_t', 'N': N, 'target': tgt, 'eps': EPS[i % 6], 'vals': ['gauss', 'decay', 'int', 'graded', 'tiny', 'decay', 'huge'][i % 7], 'dtype': DTS[(i // 4) % 4]})
    # splits that create a bond of exact rank > 100 (a rank cap that is not the caller's would show)
    for (N, tgt) in [([16384], [128, 128]), ([2, 14400], [2, 120, 120])] + ([([3, 12100, 2], [3, 110, 110, 2])] if T else []):
        cs.append({'gen': 'reshape_t', 'N': N, 'target': tgt, 'eps': None, 'vals': 'gauss', 'dtype': 'f64', 'fullrank': True})
    # reshape operators
    for i in range(1500 if not T else 20000):
        d = rng.randint(1, 3)
        M = [rng.choice((1, 2, 3, 4)) for _ in range(d)]
        N = [rng.choice((1, 2, 3, 4)) for _ in range(d)]
        k = rng.randint(1, 4)
        fm, fn = _split_into(dn.prod(M), k, rng), _split_into(dn.prod(N), k, rng)
        tgt = [[a, b] for a, b in zip(fm, fn)]
        form = i % 5
        if form == 1:
            tgt = tgt + [[1, 1]]
        elif form == 2:
            tgt = [[1, 1]] + tgt
        elif form == 3 and len(tgt) >= 2:
            tgt = tgt[:1] + [[1, 1]] + tgt[1:]
        cs.append({'gen': 'reshape_m', 'M': M, 'N': N, 'target': tgt, 'eps': EPS[i % 6], 'vals': ['gauss', 'decay', 'int', 'tiny', 'huge'][i % 5], 'dtype': DTS[(i // 3) % 4]})
    # permute: all permutations
    for d in range(1, 6 if not T else 7):
        perms = list(itertools.permutations(range(d)))
        if d == 6:
            rng.shuffle(perms)
            perms = perms[:240]
        for pi, p in enumerate(perms):
            for ttm in ((False, True) if d <= 4 else (False,)):
                i = len(cs)
                pool = (1, 2, 3, 4, 5) if d <= 4 else (1, 2, 3)
                cs.append({'gen': 'permute', 'N': gens.modes(rng, d, pool, distinct=(pi % 3 != 0)), 'M': [rng.choice((1, 2, 3)) for _ in range(d)] if ttm else None, 'perm': list(p),
                           'eps': [None, 1e-12, 1e-8, 1e-3, 1e-1][i % 5], 'vals': ['gauss', 'decay', 'int', 'tiny', 'huge', 'decay', 'tiny'][i % 7], 'dtype': DTS[(i // 5) % 4]})
    # QTT
    for i in range(600 if not T else 8000):
        d = rng.randint(1, 3)
        N = [rng.choice((1, 2, 4, 8, 16) if d < 3 else (1, 2, 4, 8)) for _ in range(d)]
        cs.append({'gen': 'qtt', 'N': N, 'ttm': i % 4 == 3, 'eps': [None, 1e-10, 1e-4, 1e-1][i % 4], 'vals': ['gauss', 'decay', 'tiny'][i % 3], 'dtype': DTS[(i // 4) % 4], 'ms': 2})
    for N in ([3], [9], [27], [3, 9], [9, 9]):
        cs.append({'gen': 'qtt', 'N': N, 'ttm': False, 'eps': None, 'vals': 'gauss', 'dtype': 'f64', 'ms': 3})
    # deep geometric decay at tiny eps: reshape (merge / split / regroup) and permute of order-3 superdiagonal tensors with 9-11 singular values per bond
    for i in range(12 if tier == 'quick' else 120):
        n = rng.choice((9, 10))
        eps = [1e-12, 1e-10, 1e-9, 1e-7][i % 4]
        dtp = ['f64', 'c128'][i % 2]
        if i % 3 == 0:
            cs.append({'gen': 'permute', 'N': [n, n, n], 'M': None, 'perm': [[1, 0, 2], [0, 2, 1], [2, 1, 0], [1, 2, 0]][(i // 3) % 4], 'eps': eps, 'vals': 'deep', 'dtype': dtp})
        else:
            cs.append({'gen': 'reshape_t', 'N': [n, n, n], 'target': [[n * n, n], [n, n * n], [n, 1, n, n], [n, n, n, 1]][(i // 3) % 4], 'eps': eps, 'vals': 'deep', 'dtype': dtp})

    # badly balanced operands: a sum of two terms, the cores of the second scaled by 1/s at one position and by s at another (s = 100/eps; every entry of
    # the sum stays of order one).  A truncation threshold taken relative to a LOCAL core norm (an operand not brought into an orthogonal gauge first) drops the first term there.
    pool = [c for c in cs if c['gen'] in ('reshape_t', 'reshape_m', 'permute') and len(c['N']) >= 2 and not c.get('fullrank') and c['vals'] != 'deep']
    rng.shuffle(pool)
    for i, c in enumerate(pool[:(240 if not T else 2400)]):
        cs.append(dict(c, vals='unbal', eps=[1e-6, 1e-3, 1e-5][i % 3], dtype=['f64', 'c128'][(i // 3) % 2]))
    from .. import hist
    cs += hist.cases(PROP, tier, seed)
    return cs


def _split_into(n, k, rng):
    """random ordered factorisation of n into exactly k factors (ones allowed)"""
    fs = [1] * k
    rem = n
    primes = []
    p = 2
    while rem > 1:
        while rem % p == 0:
            primes.append(p)
            rem //= p
        p += 1
    for q in primes:
        fs[rng.randrange(k)] *= q
    return fs


def build(case, g, N, M=None):
    dt = dn.dtype_of(case['dtype'])
    d = len(N)
    rr = random.Random(case['seed'])
    R = [1] + [rr.randint(1, 4) for _ in range(d - 1)] + [1]
    if case.get('fullrank'):
        R = [1] + [2] * (d - 1) + [1]
    vals = case['vals']
    if vals == 'deep':
        # superdiagonal tensor with singular values 10^(-1.25 j) on every bond (down to 1e-12 of the norm), gauged: truncation decisions that matter only at tiny eps
        from .c02 import build as build_c02
        return build_c02({'kind': 'gauge_deep', 'N': list(N), 'M': ([1] * d if M else None), 'dtype': case['dtype'], 'seed': case['seed'], 'gen': 'breakpoints'}, None, g)
    if vals == 'unbal':
        import torchtt
        s_ = 100.0 / case['eps']
        i, j = rr.sample(range(d), 2)
        Rq = [1] + [rr.randint(1, 2) for _ in range(d - 1)] + [1]
        cp, cq = gens.make_cores(N, R, dt, 'gauss', g, M=M), gens.make_cores(N, Rq, dt, 'gauss', g, M=M)
        cq[i], cq[j] = cq[i] / s_, cq[j] * s_
        out = []
        for k in range(d):
            a, b = cp[k], cq[k]
            sh = list(a.shape)
            sh[0], sh[-1] = (1 if k == 0 else a.shape[0] + b.shape[0]), (1 if k == d - 1 else a.shape[-1] + b.shape[-1])
            c = torch.zeros(sh, dtype=dt)
            c[(slice(0, a.shape[0]),) + (slice(None),) * (a.dim() - 2) + (slice(0, a.shape[-1]),)] = a
            c[(slice(sh[0] - b.shape[0], sh[0]),) + (slice(None),) * (a.dim() - 2) + (slice(sh[-1] - b.shape[-1], sh[-1]),)] += b
            out.append(c)
        return torchtt.TT(out)
    if vals == 'decay':
        # cores whose singular spectra decay geometrically: truncation at loose eps is really active
        cores = gens.make_cores(N, R, dt, 'gauss', g, M=M)
        out = []
        for c in cores:
            r = c.shape[-1]
            w = torch.tensor([0.15 ** j for j in range(r)], dtype=torch.float64).to(c.dtype)
            out.append(c * w)
        import torchtt
        return torchtt.TT(out)
    if vals == 'graded':
        scales = [10.0 ** rr.uniform(-3, 3) for _ in range(d)]
        return gens.make_tt(N, R, dt, 'gauss', g, M=M, scales=scales)
    if vals in ('tiny', 'huge'):
        # overall norm far from 1: a truncation threshold that is not relative to the norm shows here
        e = rr.uniform(4.0, 9.0) / max(d, 1) * (-1 if vals == 'tiny' else 1)
        if dt == torch.float32:
            e = e / 2
        return gens.make_tt(N, R, dt, 'gauss', g, M=M, scales=[10.0 ** e] * d)
    return gens.make_tt(N, R, dt, vals, g, M=M)


def judge(ctx, key, what, x_info, y, ref, eps_used, wantN, wantM, sig):
    import torchtt
    nrm, srep, u = x_info
    if isinstance(y, Raised):
        ctx.viol(key + '/clause=raises:%s@%s' % (y.type, y.func), '%s raised %r' % (what, y))
        return
    if not isinstance(y, torchtt.TT):
        ctx.viol(key + '/clause=returns-non-TT', '%s returned %s' % (what, type(y).__name__))
        return
    gotN = [int(n) for n in y.N]
    gotM = [int(m) for m in y.M] if y.is_ttm else None
    if gotN != list(wantN) or (wantM is not None and gotM != list(wantM)) or (wantM is None and y.is_ttm):
        ctx.viol(key + '/clause=mode-sizes', '%s: requested N=%s M=%s, got N=%s M=%s' % (what, wantN, wantM, gotN, gotM))
        return
    try:
        dy = dn.D(y)
    except ValueError as e:
        ctx.viol(key + '/clause=ill-formed-result', '%s: %s' % (what, e))
        return
    err = dn.fro(dy - ref.reshape(dy.shape))
    allow = C_EPS * eps_used * nrm + 1e3 * u * srep
    if allow > 0:
        ctx.metric('err_over_allowance', err / allow)
    if eps_used * nrm > 0:
        ctx.metric('err_over_eps_norm(eps>=1e-6)', err / (eps_used * nrm) if eps_used >= 1e-6 else 0.0)
    if not err <= allow:
        clause = 'sign-phase-or-scale' if nrm > 0 and err > 0.5 * nrm else 'error>10eps'
        ctx.viol(key + '/clause=' + clause, '%s: ||D(y)-ref||=%.4e, allowance 10*eps*||x||=%.4e + roundoff %.2e (||x||=%.3e)' % (what, err, C_EPS * eps_used * nrm, 1e3 * u * srep, nrm))
    if err > 1e2 * u * srep and eps_used >= 1e-6:
        ctx.count('truncation_active')
    ctx.nontrivial(sig)


def run_case(case, ctx):
    g = gens.tgen(case['seed'])
    globals()['run_' + case['gen']](case, ctx, g)


def run_hist(case, ctx, g):
    from .. import hist
    hist.run(PROP, case, ctx)


def _kind(tgt, case):
    """the requested shape as a list, a tuple or a torch.Size (all three are accepted by reshape for TT tensors)"""
    k = case['seed'] % 4
    return tuple(tgt) if k == 1 else (torch.Size(list(tgt)) if k == 2 else list(tgt))


def _info(x):
    return dn.fro(dn.D(x)), dn.s_rep(x), dn.ueps(x.cores[0].dtype)


def run_reshape_t(case, ctx, g):
    import torchtt
    N, tgt, eps = case['N'], case['target'], case['eps']
    x = build(case, g, N)
    ref = dn.D(x).reshape(tgt)
    info = _info(x)
    ctx.count('reshape/tensor')
    core_t = [t for t in tgt if t != 1]
    core_n = [n for n in N if n != 1]
    if tgt[-1] == 1:
        ctx.count('target:trailing-ones')
    if tgt[0] == 1:
        ctx.count('target:leading-ones')
    ctx.count('target:split' if len(core_t) > len(core_n) else ('target:merge' if len(core_t) < len(core_n) else 'target:regroup'))
    tclass = ('trailing-ones' if tgt[-1] == 1 and len(tgt) > 1 else '') + ('leading-ones' if tgt[0] == 1 and len(tgt) > 1 else '')
    key = 'reshape/tensor/%s' % (tclass or 'plain')
    what = 'reshape N=%s R=%s -> %s eps=%s %s %s' % (N, [int(r) for r in x.R], tgt, eps, case['vals'], case['dtype'])
    if eps is None:
        y = ctx.lib('reshape', lambda t: torchtt.reshape(t, _kind(tgt, case)), x)
    else:
        y = ctx.lib('reshape', lambda t: torchtt.reshape(t, _kind(tgt, case), eps), x)
    judge(ctx, key, what, info, y, ref, 1e-16 if eps is None else eps, tgt, None, ('reshape_t', tuple(N), tuple(tgt), eps, case['vals'], case['dtype']))


def run_reshape_m(case, ctx, g):
    import torchtt
    M, N, tgt, eps = case['M'], case['N'], case['target'], case['eps']
    x = build(case, g, N, M)
    Mt, Nt = [t[0] for t in tgt], [t[1] for t in tgt]
    ref = dn.D(x).reshape(Mt + Nt)
    info = _info(x)
    ctx.count('reshape/operator')
    tclass = ('trailing-ones' if tgt[-1] == [1, 1] and len(tgt) > 1 else '') + ('leading-ones' if tgt[0] == [1, 1] and len(tgt) > 1 else '')
    key = 'reshape/operator/%s' % (tclass or 'plain')
    what = 'reshape operator M=%s N=%s R=%s -> %s eps=%s %s %s' % (M, N, [int(r) for r in x.R], tgt, eps, case['vals'], case['dtype'])
    shape = [tuple(t) for t in tgt]
    if eps is None:
        y = ctx.lib('reshape(operator)', lambda t: torchtt.reshape(t, shape), x)
    else:
        y = ctx.lib('reshape(operator)', lambda t: torchtt.reshape(t, shape, eps), x)
    judge(ctx, key, what, info, y, ref, 1e-16 if eps is None else eps, Nt, Mt, ('reshape_m', tuple(M), tuple(N), str(tgt), eps, case['vals'], case['dtype']))


def run_permute(case, ctx, g):
    import torchtt
    N, M, p, eps = case['N'], case['M'], case['perm'], case['eps']
    d = len(N)
    x = build(case, g, N, M)
    dx = dn.D(x)
    ref = dx.permute(list(p) + [d + i for i in p]) if M else dx.permute(list(p))
    info = _info(x)
    kind = 'operator' if M else 'tensor'
    ctx.count('permute/' + kind)
    key = 'permute/%s/%s' % (kind, 'identity' if list(p) == list(range(d)) else 'order%d' % min(d, 3))
    what = 'permute %s N=%s M=%s R=%s dims=%s eps=%s %s %s' % (kind, N, M, [int(r) for r in x.R], p, eps, case['vals'], case['dtype'])
    if eps is None:
        y = ctx.lib('permute', lambda t: torchtt.permute(t, tuple(p) if case['seed'] % 3 == 1 else list(p)), x)
    else:
        y = ctx.lib('permute', lambda t: torchtt.permute(t, tuple(p) if case['seed'] % 3 == 1 else list(p), eps), x)
    judge(ctx, key, what, info, y, ref, 1e-12 if eps is None else eps, [N[i] for i in p], [M[i] for i in p] if M else None, ('permute', kind, tuple(N), tuple(M or ()), tuple(p), eps, case['vals'], case['dtype']))


def run_qtt(case, ctx, g):
    import torchtt
    N, ttm, eps, ms = case['N'], case['ttm'], case['eps'], case['ms']
    x = build(case, g, N, list(N) if ttm else None)
    dx = dn.D(x)
    info = _info(x)
    want = []
    for n in N:
        k = round(math.log(n, ms))
        want += [ms] * k if k >= 1 else ([1] if not ttm else [])
    kind = 'operator' if ttm else 'tensor'
    ctx.count('to_qtt/' + kind)
    key = 'to_qtt/%s' % kind
    what = 'to_qtt %s N=%s R=%s eps=%s mode_size=%d %s %s' % (kind, N, [int(r) for r in x.R], eps, ms, case['vals'], case['dtype'])
    kw = {'mode_size': ms}
    if eps is not None:
        kw['eps'] = eps
    y = ctx.lib('to_qtt', lambda t: t.to_qtt(**kw), x)
    if ttm and not want:
        return      # a 1x1 operator has no QTT modes: not a meaningful request
    ref = dx.reshape(want + want) if ttm else dx.reshape(want)
    judge(ctx, key, what, info, y, ref, 1e-12 if eps is None else eps, want, want if ttm else None, ('to_qtt', kind, tuple(N), eps, ms, case['vals'], case['dtype']))
    if not ttm and isinstance(y, torchtt.TT) and [int(n) for n in y.N] == want:
        ctx.count('qtt_roundtrip')
        z = ctx.lib('qtt_to_tens', lambda t: t.qtt_to_tens(list(N)), y)
        judge(ctx, 'qtt_to_tens/tensor', 'qtt_to_tens(%s) after ' % N + what, info, z, dx, 1e-12 if eps is None else eps, N, None, ('qtt_to_tens', tuple(N), eps, ms, case['vals'], case['dtype']))
        # other groupings of the same QTT modes: a size-1 mode folded into its right / left neighbour, two neighbouring modes merged
        alts = []
        for i_, n_ in enumerate(N):
            if n_ == 1 and len(N) > 1:
                alts.append(N[:i_] + N[i_ + 1:])
        if len(N) >= 2:
            j_ = case['seed'] % (len(N) - 1)
            alts.append(N[:j_] + [N[j_] * N[j_ + 1]] + N[j_ + 2:])
        for T_ in alts[:3]:
            if not T_ or dn.prod(T_) != dn.prod(N):
                continue
            ctx.count('qtt_to_tens/regrouped')
            z2 = ctx.lib('qtt_to_tens', lambda t: t.qtt_to_tens(list(T_)), y)
            if isinstance(z2, Raised) and z2.type in ('ShapeMismatch', 'InvalidArguments'):
                ctx.count('qtt_to_tens/regrouping-rejected-by-the-library')      # e.g. a trailing size-1 QTT mode cannot be folded backwards: a documented error, not a wrong value
                continue
            judge(ctx, 'qtt_to_tens/tensor/regrouped', 'qtt_to_tens(%s) after ' % T_ + what, info, z2, dx.reshape(T_), 1e-12 if eps is None else eps, T_, None,
                  ('qtt_to_tens', tuple(N), tuple(T_), eps, ms, case['vals'], case['dtype']))
