"""C04 - TT-matrix algebra equals dense linear-operator algebra."""
import random
import itertools
import numpy as np
import torch

from .. import dense as dn
from .. import gens
from ..oracle import compare, expect_tt, check_dtype, check_ranks
from ..ctx import Raised

PROP = 'C04'
RULE = ('cases = operator/vector/operator triples of order 1..4 with rectangular modes (row, column and inner sizes drawn pairwise distinct '
        'where the pool allows), rank profiles one/uniform/distinct/random, ops {A@x, x@A, A@B, A@dense with 0..3 batch dims, t(), A+B, A-B, A*B, '
        'scalar +,-,*,/ from both sides, unary -, full()}; bounded-exhaustive small structures (order<=2, sizes<=3, ranks<=2) in thorough. '
        'Oracle: tensordot on harness-contracted dense operators (modes un-interleaved by the harness); bit-equality on int-valued cores, '
        '1e3*u*S_rep otherwise; product ranks; dtype. distinct = (op, structure, dtype, value class); non-trivial = non-zero reference.')
from ..hist import RULE_SUFFIX as _RS
RULE = RULE + _RS
ASSUMPTIONS = ['dense operators are M1..Md x N1..Nd arrays obtained by the harness own contraction',
               'np.int64 / complex-divisor scalar forms that the library explicitly refuses are outside the workload (see C03)']
REQUIRED_REACH = ['_tt_base:TT.__matmul__', '_aux_ops:dense_matvec', '_tt_base:TT.t', '_tt_base:TT.__add__', '_tt_base:TT.__sub__', '_tt_base:TT.__mul__',
                  '_tt_base:TT.full', '_tt_base:TT.__truediv__', '_tt_base:TT.__neg__']
REQUIRED_COUNTS = {'history_value_checks': 200, 'branch:A@x': 1, 'branch:x@A': 1, 'branch:A@B': 1, 'branch:A@dense/batch0': 1, 'branch:A@dense/batch1': 1, 'branch:A@dense/batch2': 1,
                   'branch:A@dense/batch3': 1, 'branch:A@dense/more-than-4096-batch-entries': 4, 'branch:t': 1, 'branch:add': 1, 'branch:sub': 1, 'branch:mul': 1, 'branch:full/order1': 1,
                   'branch:full/order>=2': 1, 'branch:scalar': 1, 'exact_comparisons': 100}
LINE_FUNCS = ['TT.__matmul__', 'dense_matvec', 'TT.t', 'TT.full']
DT = ['f64', 'f64', 'f32', 'c128']
OPS = ['Ax', 'xA', 'AB', 'Adense', 't', 'add', 'sub', 'mul', 'full', 'neg']
SC_OPS = ['add', 'radd', 'sub', 'rsub', 'mul', 'rmul', 'div']
SC_KINDS = ['int', 'float', 'complex', 'npf64', 't0', 't1', 'zero', 'float_nr', 'npf64_nr', 't0_nr', 't0_f32', 't0_i64', 't1_i32', 'tiny', 'tinyneg', 'huge', 't0_bigint', 't1_bigint']


def three_distinct(rng, d, pool=(1, 2, 3, 4, 5)):
    M, K, N = [], [], []
    for _ in range(d):
        a, b, c = rng.sample(list(pool), 3)
        M.append(a)
        K.append(b)
        N.append(c)
    return M, K, N


def cases(tier, seed):
    rng = random.Random('C04|%d' % seed)
    cs = []
    n = 8000 if tier == 'quick' else 150000
    for i in range(n):
        d = rng.choice([1, 2, 2, 3, 3, 4])
        M, K, N = three_distinct(rng, d, (1, 2, 3, 4, 5) if d <= 3 else (1, 2, 3, 4))
        prof = rng.choice(['distinct', 'rand', 'uniform', 'one'])
        cs.append({'gen': 'op', 'op': OPS[i % len(OPS)], 'M': M, 'K': K, 'N': N,
                   'RA': gens.rank_profile(rng, d, prof, 3), 'RB': gens.rank_profile(rng, d, rng.choice(['distinct', 'rand', 'one']), 3),
                   'dtype': rng.choice(DT), 'vals': rng.choice(['int', 'int', 'int', 'gauss']), 'batch': [rng.randint(1, 3) for _ in range(i % 4)]})
    # operator sums / differences / elementwise products of operands with DIFFERENT dtypes (the library promotes): real with complex, single with double, both orders
    for i in range(120 if tier == 'quick' else 1200):
        d = rng.choice([1, 2, 2, 3])
        M, K, N = three_distinct(rng, d, (1, 2, 3, 4))
        da_, db_ = [('f64', 'c128'), ('c128', 'f64'), ('f32', 'f64'), ('f64', 'f32'), ('f32', 'c128')][i % 5]
        cs.append({'gen': 'op', 'op': ['add', 'sub', 'mul'][(i // 5) % 3], 'M': M, 'K': K, 'N': N, 'RA': gens.rank_profile(rng, d, 'rand', 3), 'RB': gens.rank_profile(rng, d, 'rand', 3), 'dtype': da_, 'dtB': db_,
                   'vals': 'int' if i % 2 else 'gauss', 'batch': []})
    # A @ dense with thousands of batch entries (1-3 batch dims, 4100 .. 33000 entries, not multiples of a power of two): blocked evaluation must return every entry
    for i in range(8 if tier == 'quick' else 64):
        d = rng.choice([1, 2, 3])
        M, K, N = three_distinct(rng, d, (1, 2, 3))
        cs.append({'gen': 'op', 'op': 'Adense', 'M': M, 'K': K, 'N': N, 'RA': gens.rank_profile(rng, d, 'rand', 3), 'RB': gens.rank_profile(rng, d, 'one', 3), 'dtype': ['f64', 'c128', 'f32'][i % 3],
                   'vals': 'int' if i % 2 else 'gauss', 'batch': [[9001], [100, 90], [21, 20, 25], [4100], [33000], [3, 2731], [8193], [2, 2, 4099]][i % 8]})
    # directed: square, equal-rank (where transposed letters hide) and order-1 operators, every op
    for op in OPS:
        for (M, K, N, RA, RB) in [([2], [3], [4], [1, 1], [1, 1]), ([1], [1], [1], [1, 1], [1, 1]), ([2, 2], [2, 2], [2, 2], [1, 2, 1], [1, 2, 1]),
                                  ([2, 3], [4, 5], [3, 2], [1, 3, 1], [1, 2, 1]), ([3, 1, 2], [2, 3, 1], [1, 2, 3], [1, 2, 3, 1], [1, 3, 2, 1])]:
            for b in range(4):
                cs.append({'gen': 'op', 'op': op, 'M': M, 'K': K, 'N': N, 'RA': RA, 'RB': RB, 'dtype': 'f64', 'vals': 'int', 'batch': [2, 1, 3][:b]})
                if op != 'Adense':
                    break
    # scalar forms on operators
    structs = [([2], [3], [1, 1]), ([1], [1], [1, 1]), ([2, 3], [3, 2], [1, 2, 1]), ([3, 1], [1, 2], [1, 2, 1]), ([2, 2, 3], [3, 2, 2], [1, 2, 3, 1])]
    for (M, N, R) in structs:
        for op in SC_OPS:
            for sk in SC_KINDS:
                for dt in ('f64', 'f32', 'c128'):
                    if sk == 'complex' and dt != 'c128':
                        continue
                    if op == 'div' and sk in ('complex', 'zero'):
                        continue
                    if sk == 't0_f32' and dt == 'f32':
                        continue
                    if tier == 'quick' and dt != 'f64' and (len(M) + SC_KINDS.index(sk) + SC_OPS.index(op)) % 3:
                        continue
                    cs.append({'gen': 'scalar', 'op': op, 'M': M, 'N': N, 'R': R, 'kind': sk, 'dtype': dt, 'vals': 'int'})
    if tier == 'thorough':
        # bounded-exhaustive small structures for the four products
        for d in (1, 2):
            for M in itertools.product((1, 2, 3), repeat=d):
                for K in itertools.product((1, 2, 3), repeat=d):
                    for N in itertools.product((1, 2), repeat=d):
                        for RA in itertools.product((1, 2), repeat=d - 1):
                            for RB in itertools.product((1, 2), repeat=d - 1):
                                for op in ('Ax', 'xA', 'AB', 'Adense'):
                                    cs.append({'gen': 'op', 'op': op, 'M': list(M), 'K': list(K), 'N': list(N), 'RA': [1] + list(RA) + [1],
                                               'RB': [1] + list(RB) + [1], 'dtype': 'f64', 'vals': 'int', 'batch': [2]})
    from .. import hist
    cs += hist.cases(PROP, tier, seed)
    return cs


def run_case(case, ctx):
    g = gens.tgen(case['seed'])
    globals()['run_' + case['gen']](case, ctx, g)


def run_hist(case, ctx, g):
    from .. import hist
    hist.run(PROP, case, ctx)


def run_op(case, ctx, g):
    dt = dn.dtype_of(case['dtype'])
    M, K, N, RA, RB, op = case['M'], case['K'], case['N'], case['RA'], case['RB'], case['op']
    d = len(M)
    vals = case['vals']
    what = '%s M=%s K=%s N=%s RA=%s RB=%s batch=%s %s %s' % (op, M, K, N, RA, RB, case.get('batch'), case['dtype'], vals)
    key = 'op/%s' % op
    A = gens.make_tt(K, RA, dt, vals, g, M=M)       # operator M x K
    zk = case.get('seed', 0) % 11
    if zk == 3:
        # an exactly zero FIRST operand (what torchtt.zeros / 0*A hand out): sums and differences with a zero term
        import torchtt
        A = torchtt.TT([c * 0 if k_ == (case['seed'] // 11) % d else c for k_, c in enumerate(A.cores)])
        ctx.count('operand:zero-first')
    dA = dn.D(A)
    sA = dn.s_rep(A)
    bA = gens.abs_bound(A)
    expR = None
    if op == 'Ax':
        x = gens.make_tt(K, RB, dt, vals, g)
        ref, scale, bound = torch.tensordot(dA, dn.D(x), dims=d), sA * dn.s_rep(x), bA * gens.abs_bound(x)
        res = ctx.lib('TTM@TT', lambda a, b: a @ b, A, x)
        expR = [a * b for a, b in zip(RA, RB)]
        ctx.count('branch:A@x')
    elif op == 'xA':
        x = gens.make_tt(M, RB, dt, vals, g)
        ref, scale, bound = torch.tensordot(dn.D(x), dA, dims=d), sA * dn.s_rep(x), bA * gens.abs_bound(x)
        res = ctx.lib('TT@TTM', lambda a, b: a @ b, x, A)
        expR = [a * b for a, b in zip(RA, RB)]
        ctx.count('branch:x@A')
    elif op == 'AB':
        B = gens.make_tt(N, RB, dt, vals, g, M=K)   # operator K x N
        ref, scale, bound = torch.tensordot(dA, dn.D(B), dims=d), sA * dn.s_rep(B), bA * gens.abs_bound(B)
        res = ctx.lib('TTM@TTM', lambda a, b: a @ b, A, B)
        expR = [a * b for a, b in zip(RA, RB)]
        ctx.count('branch:A@B')
    elif op == 'Adense':
        batch = case.get('batch', [])
        X = gens.values(batch + K, dt, vals, g)
        nb = len(batch)
        ref = torch.tensordot(dn.to_up(X), dA, dims=(list(range(nb, nb + d)), list(range(d, 2 * d))))
        scale, bound = sA * dn.fro(X), bA * float(X.abs().sum())
        res = ctx.lib('TTM@dense', lambda a, b: a @ b, A, X)
        ctx.count('branch:A@dense/batch%d' % nb)
        if dn.prod(batch) > 4096:
            ctx.count('branch:A@dense/more-than-4096-batch-entries')
        key += '/batch%d' % nb
        if isinstance(res, Raised):
            ctx.viol(key + '/clause=raises:%s@%s' % (res.type, res.func), '%s raised %r' % (what, res))
            return
        if not torch.is_tensor(res):
            ctx.viol(key + '/clause=returns-non-tensor', '%s returned %s' % (what, type(res).__name__))
            return
        exact = vals == 'int' and gens.exact_ok(dt, bound)
        compare(ctx, key, res, ref, exact, dn.ueps(dt), scale, what)
        if res.dtype != dt:
            ctx.viol(key + '/clause=dtype', '%s: result dtype %s' % (what, res.dtype))
        if dn.fro(ref) > 0:
            ctx.nontrivial(('Adense', tuple(M), tuple(K), tuple(RA), tuple(batch), case['dtype'], vals))
        return
    elif op == 't':
        ref, scale, bound = dA.permute(list(range(d, 2 * d)) + list(range(d))), sA, bA
        res = ctx.lib('TTM.t', lambda a: a.t(), A)
        expR = RA
        ctx.count('branch:t')
    elif op in ('add', 'sub', 'mul'):
        dtB = dn.dtype_of(case['dtB']) if case.get('dtB') else dt
        B = gens.make_tt(K, RB, dtB, vals, g, M=M)
        if dtB != dt:
            ctx.count('operands-of-different-dtypes')
            dA = dA.to(torch.complex128) if (dA.is_complex() or dn.D(B).is_complex()) else dA
        if zk == 7:
            import torchtt
            B = torchtt.TT([c * 0 if k_ == (case['seed'] // 11) % d else c for k_, c in enumerate(B.cores)])
            ctx.count('operand:zero-second')
        dB = dn.D(B)
        if op == 'add':
            ref, scale, bound, expR = dA + dB, sA + dn.s_rep(B), bA + gens.abs_bound(B), [1] + [a + b for a, b in zip(RA[1:-1], RB[1:-1])] + [1]
            res = ctx.lib('TTM+TTM', lambda a, b: a + b, A, B)
        elif op == 'sub':
            ref, scale, bound, expR = dA - dB, sA + dn.s_rep(B), bA + gens.abs_bound(B), [1] + [a + b for a, b in zip(RA[1:-1], RB[1:-1])] + [1]
            res = ctx.lib('TTM-TTM', lambda a, b: a - b, A, B)
        else:
            ref, scale, bound, expR = dA * dB, sA * dn.s_rep(B), bA * gens.abs_bound(B), [a * b for a, b in zip(RA, RB)]
            res = ctx.lib('TTM*TTM', lambda a, b: a * b, A, B)
        ctx.count('branch:' + op)
    elif op == 'neg':
        ref, scale, bound, expR = -dA, sA, bA, RA
        res = ctx.lib('TTM.neg', lambda a: -a, A)
    else:  # full
        ctx.count('branch:full/order%s' % ('1' if d == 1 else '>=2'))
        key += '/order%s' % ('1' if d == 1 else '>=2')
        f = ctx.lib('TTM.full', lambda a: a.full(), A)
        if isinstance(f, Raised):
            ctx.viol(key + '/clause=raises:%s' % f.type, '%s raised %r' % (what, f))
            return
        compare(ctx, key, f, dA, vals == 'int' and gens.exact_ok(dt, bA), dn.ueps(dt), sA, what)
        if f.dtype != dt:
            ctx.viol(key + '/clause=dtype', '%s: dtype %s' % (what, f.dtype))
        if dn.fro(dA) > 0:
            ctx.nontrivial(('full', tuple(M), tuple(K), tuple(RA), case['dtype'], vals))
        return
    if not expect_tt(ctx, key, res, what):
        return
    try:
        got = dn.D(res)
    except ValueError as e:
        ctx.viol(key + '/clause=ill-formed-result', '%s: %s' % (what, e))
        return
    if case.get('dtB') and dn.dtype_of(case['dtB']) != dt:
        # operands of different dtypes: the result has the PROMOTED dtype and nothing of the wider operand is cast down
        dtp = torch.promote_types(dt, dn.dtype_of(case['dtB']))
        compare(ctx, key + '/mixed-dtypes', got.to(ref.dtype) if got.dtype != ref.dtype else got, ref.to(got.dtype) if False else ref, vals == 'int' and gens.exact_ok(dt, bound) and gens.exact_ok(dn.dtype_of(case['dtB']), bound), dn.ueps(dtp), scale, what + ' (second operand %s)' % case['dtB'])
        check_dtype(ctx, key + '/mixed-dtypes', res, dtp, what)
    else:
        compare(ctx, key, got, ref, vals == 'int' and gens.exact_ok(dt, bound), dn.ueps(dt), scale, what)
        check_dtype(ctx, key, res, dt, what)
    if expR is not None and op not in ('add', 'sub', 'neg'):
        # C04 promises the rank structure of PRODUCTS only (A@x, x@A, A@B, elementwise *); the ranks of operator sums are not part of its statement (C03 states them for tensors)
        check_ranks(ctx, key, res, expR, what)
    want_ttm = op in ('AB', 't', 'add', 'sub', 'mul', 'neg')
    if bool(res.is_ttm) != want_ttm:
        ctx.viol(key + '/clause=kind', '%s: result is_ttm=%s' % (what, res.is_ttm))
    if dn.fro(ref) > 0:
        ctx.nontrivial((op, tuple(M), tuple(K), tuple(N), tuple(RA), tuple(RB), case['dtype'], vals))


def run_scalar(case, ctx, g):
    from .c03 import scalar_of, scalar_ref
    dt = dn.dtype_of(case['dtype'])
    A = gens.make_tt(case['N'], case['R'], dt, case['vals'], g, M=case['M'])
    op, kind = case['op'], case['kind']
    s = scalar_of(kind, dt)
    sr = scalar_ref(kind, s)
    fns = {'add': lambda a, b: a + b, 'radd': lambda a, b: b + a, 'sub': lambda a, b: a - b, 'rsub': lambda a, b: b - a,
           'mul': lambda a, b: a * b, 'rmul': lambda a, b: b * a, 'div': lambda a, b: a / b}
    base_ = {'add': 'add', 'radd': 'add', 'sub': 'sub', 'rsub': 'sub', 'mul': 'mul', 'rmul': 'mul', 'div': 'div'}[op]
    skind = 'tensor-scalar' if kind in ('t0', 't1', 't0_nr') else ('tensor-scalar(other dtype)' if kind in ('t0_f32', 't0_i64', 't1_i32', 't0_bigint', 't1_bigint') else ('numpy-scalar' if kind.startswith('np') else 'python-scalar'))
    key = 'scalar/%s/%s' % (op, skind)
    what = 'A %s scalar(%s=%r) M=%s N=%s R=%s %s' % (op, kind, sr, case['M'], case['N'], case['R'], case['dtype'])
    ctx.count('branch:scalar')
    dA = dn.D(A)
    ref = fns[op](dA, sr)
    exact = gens.exact_ok(dt, (gens.abs_bound(A) + 4) * 4) and not (op == 'div' and abs(sr) not in (0.25, 0.5, 1, 2, 4)) and not kind.endswith('_nr')
    srep = dn.s_rep(A)
    res = ctx.lib('TTM.%s.scalar' % op, fns[op], A, s)
    try:
        if not dn.bit_equal(dn.D(A), dA):
            ctx.viol(key + '/clause=operand-changed', '%s: the TT operand no longer has the value it had before the call' % what)
    except ValueError:
        ctx.viol(key + '/clause=operand-changed', '%s: the TT operand is ill-formed after the call' % what)
    if not expect_tt(ctx, key, res, what):
        return
    try:
        got = dn.D(res)
    except ValueError as e:
        ctx.viol(key + '/clause=ill-formed-result', '%s: %s' % (what, e))
        return
    if kind in ('tiny', 'tinyneg', 'huge', 't0_bigint', 't1_bigint'):
        # scalars far from 1: the allowance follows the size of the exact result (a product with 1e-18 that comes back as 0 is off by 100 %, not by roundoff)
        a_ = abs(sr)
        mag = srep * a_ if base_ == 'mul' else (srep / a_ if base_ == 'div' else srep + a_ * max(1, ref.numel()) ** 0.5)
        compare(ctx, key, got, ref, False, dn.ueps(dt), mag, what)
    else:
        compare(ctx, key, got, ref, exact, dn.ueps(dt), srep * 4 + 4, what)
    check_dtype(ctx, key, res, dt, what)
    if not res.is_ttm:
        ctx.viol(key + '/clause=kind', '%s: result is not an operator' % what)
    if dn.fro(ref) > 0:
        ctx.nontrivial(('scalar', op, kind, tuple(case['M']), tuple(case['N']), tuple(case['R']), case['dtype']))
