"""C06 - operations never change the value of their operands (decided by the IMM monitor over call histories)."""
import random
import torch

from .. import dense as dn
from .. import walk
from .. import gens
from ..ctx import Raised

PROP = 'C06'
DECIDES = 'IMM'
RULE = ('histories = (i) directed table: every operation of the alphabet (ttmon/walk.py) x every way of producing its TT operands {plain object, view produced by slicing, t(), '
        'conj(), sum(k), to_ttm(), detach(), clone of a view} x repetitions, iterative routines called with AND without their optional initial guess; (ii) the same random walks '
        'as C05 with operands re-used across steps (results and views fed into later operations). Before each call every TT argument is snapshotted (core identities, _version, '
        'data_ptr, shapes, dtypes, a clone of the data, N/M/R/shape/is_ttm); after the call (normal or exceptional) it must be bit-identical; at every quiescent point every live '
        'object seen earlier is re-compared with its snapshot ("a result obtained earlier keeps its value"). Only receivers of set_core / reduce_dims / grad.watch|unwatch are '
        'refreshed instead of compared. distinct = (operation, result structure, operand structures); non-trivial = the call returned.')
ASSUMPTIONS = ['comparison is bit-exact (torch.equal, NaN-aware): no tolerance, hence no false alarm from roundoff',
               'documented in-place operations: set_core, reduce_dims, grad.watch/unwatch']
REQUIRED_REACH = ['_tt_base:TT.__truediv__', '_dmrg:dmrg_matvec_python', '_dmrg:dmrg_hadamard_python', '_amen:amen_mv', '_amen:amen_mm', 'solvers:amen_solve', '_division:amen_divide',
                  'interpolate:function_interpolate', 'interpolate:dmrg_cross', '_tt_base:TT.round', '_extras:reshape', '_extras:permute', 'manifold:riemannian_projection',
                  'manifold:riemannian_gradient', '_extras:elementwise_divide']
REQUIRED_COUNTS = {'mixed_dtype_call_returned': 30, 'same_call_again': 100, 'imm_result_identity_checks': 500, 'imm_operand_checks': 2000, 'imm_stability_checks': 5000, 'op:fast_matvec(initial)': 3, 'op:dmrg_hadamard(z0)': 3, 'op:amen_mv(x0)': 3, 'op:amen_mm(X0)': 3,
                   'op:amen_solve(x0)': 3, 'op:elementwise_divide(start)': 1, 'op:function_interpolate(start)': 1, 'op:dmrg_cross(start)': 1, 'op:TT.scalar(x/s)': 3}
MIN_NONTRIVIAL = {'quick': 200, 'thorough': 2000}
CASE_TIMEOUT = {'quick': 240, 'thorough': 600}
LINE_FUNCS = ['TT.__truediv__', 'dmrg_matvec_python', 'dmrg_hadamard_python']


def cases(tier, seed):
    rng = random.Random('C06|%d' % seed)
    T = tier == 'thorough'
    cs = []
    for name in walk.OP_NAMES:
        for v in range(len(walk.VIEWS)):
            for rep in range(6 if not T else 30):
                cs.append({'gen': 'table', 'op': name, 'view0': v, 'reps': 3, 'dtype': 'f64' if rep % 3 else ['c128', 'f32', 'f64'][(v + rep) % 3]})
    for i in range(100 if not T else 1500):
        cs.append({'gen': 'walk', 'steps': rng.choice((30, 60, 100)) if not T else rng.choice((30, 60, 120, 200)), 'dtype': ['f64', 'f64', 'c128', 'f32'][i % 4], 'views': i % 2 == 0})
    # operands of DIFFERENT dtypes in one call (the library accepts f32 with f64 and real with complex in +, -, *, @, kron, dot ...): neither operand may be converted in place
    for i in range(160 if not T else 1600):
        cs.append({'gen': 'mixdtype', 'op': ['add', 'sub', 'mul', 'matmul_Ax', 'matmul_AB', 'kron', 'dot', 'hadamard_ttm', 'add_ttm', 'cat'][i % 10],
                   'dts': [('f64', 'c128'), ('c128', 'f64'), ('f32', 'f64'), ('f64', 'f32'), ('f32', 'c128'), ('c64', 'f64')][(i // 10) % 6], 'N': [rng.choice((1, 2, 3)) for _ in range(rng.randint(1, 3))]})
    return cs


def run_mixdtype(case, ctx):
    import torchtt
    g = gens.tgen(case['seed'])
    rr = random.Random(case['seed'])
    N = case['N']
    d = len(N)
    dts = [{'f64': torch.float64, 'f32': torch.float32, 'c128': torch.complex128, 'c64': torch.complex64}[k] for k in case['dts']]
    R = lambda: [1] + [rr.randint(1, 3) for _ in range(d - 1)] + [1]
    op = case['op']
    ttm = op in ('matmul_AB', 'hadamard_ttm', 'add_ttm')
    M = [rr.choice((1, 2)) for _ in N]
    a = gens.make_tt(N, R(), dts[0], 'gauss', g, M=M if (ttm or op == 'matmul_Ax') else None)
    b = gens.make_tt(N if op != 'matmul_AB' else M, R(), dts[1], 'gauss', g, M=(N if op == 'matmul_AB' else M) if ttm else None)
    f = {'add': lambda p, q: p + q, 'sub': lambda p, q: p - q, 'mul': lambda p, q: p * q, 'matmul_Ax': lambda p, q: p @ q, 'matmul_AB': lambda p, q: q @ p,
         'kron': lambda p, q: torchtt.kron(p, q), 'dot': lambda p, q: torchtt.dot(p, q), 'hadamard_ttm': lambda p, q: p * q, 'add_ttm': lambda p, q: p + q,
         'cat': lambda p, q: torchtt.cat((p, q), 0)}[op]
    ctx.count('mixed_dtype_calls')
    r = ctx.lib('mixed-dtype:' + op, f, a, b)           # the IMM monitor compares both operands (dtype, data, metadata) around the call
    if isinstance(r, Raised):
        ctx.count('mixed_dtype_call_raised')
    else:
        ctx.count('mixed_dtype_call_returned')
    from ..hooks import signature
    ctx.nontrivial(('mixdtype', op, case['dts'], signature(a), signature(b)))


def run_case(case, ctx):
    if case['gen'] == 'mixdtype':
        return run_mixdtype(case, ctx)
    dt = dn.dtype_of(case['dtype'])
    if case['gen'] == 'walk':
        w = walk.Walker(ctx, case['seed'], dt, views=case['views'])
        for _ in range(4):
            w.admit(w.fresh(w.small_shape()))
        for _ in range(case['steps']):
            w.step()
            if w.rng.random() < 0.1:
                w.again(then_edit=w.rng.random() < 0.5)       # the same call once more: an independent result is due
    else:
        w = walk.Walker(ctx, case['seed'], dt, views=True)
        w.view_rot = case['view0']
        for _ in range(case['reps']):
            w.pool = []
            r = w.step(case['op'])
            lb = w.last
            # second use of the same operands' neighbourhood: feed the result into a cheap follow-up so that aliasing shows
            if r is not None and not isinstance(r, Raised):
                w.step('norm')
                # the same call once more on the unchanged operands, the second result then edited in place: the first result (still alive) must keep its value
                w.last = lb
                keep_first = r
                w.again(then_edit=True)
                del keep_first
