"""C05 - every reachable TT object is structurally well formed (decided by the WF monitor over call histories)."""
import random
import itertools
import torch

from .. import dense as dn
from .. import walk
from .. import gens

PROP = 'C05'
DECIDES = 'WF'
RULE = ('histories = (i) bounded-exhaustive call sequences of length 2 (thorough: length 3 over the cheap alphabet) over the operation alphabet of ttmon/walk.py, each result fed '
        'to the next call; (ii) seeded random walks of 30..200 steps over the full alphabet (constructors, factories, algebra, broadcasting, scalar forms, matmul, kron, round, '
        'slicing, sum, dot, norm, reshape, permute, QTT, cat, pad, diag, mprod, conversions, DMRG/AMEn products and solves with and without initial guesses, division, cross, '
        'manifold, and the in-place set_core (incl. mode-size-changing cores) / reduce_dims / watch, plus writing on the lists returned by N/M/R) on a pool of objects of '
        'order<=6, dense size<=2e4, rank<=24. After every call (quiescent point) the WF monitor checks every live TT object: cores 3-d or all 4-d, rank chain, boundary ranks, '
        'is_ttm/N/M/R/shape agree with the cores, len(R)==len(N)+1, N/M/R hand out copies, full().shape==M+N. An ill-formed object is reported once, attributed to the call at '
        'which it first appeared. distinct = (operation, result structure, operand structures); non-trivial = the call returned an object.')
ASSUMPTIONS = ['TT(None) (the documented empty placeholder) has no dense value and is skipped', 'operations whose preconditions fail are expected to raise (C18); the walk continues',
               'full()-based clause skipped for objects with more than 2e4 dense entries']
REQUIRED_REACH = ['_tt_base:TT.__init__', '_tt_base:TT.set_core', '_tt_base:TT.reduce_dims', '_tt_base:TT.__getitem__', '_tt_base:TT.round', '_extras:reshape', '_extras:permute',
                  '_dmrg:dmrg_matvec_python', '_dmrg:dmrg_hadamard_python', '_amen:_amen_mm_python', 'solvers:_amen_solve_python', '_division:amen_divide', 'interpolate:dmrg_cross',
                  'interpolate:function_interpolate', 'manifold:riemannian_projection', '_tt_base:TT.to_qtt', '_tt_base:TT.qtt_to_tens', '_extras:cat', '_extras:pad']
REQUIRED_COUNTS = {'copy_then_inplace_histories': 100, 'argument_alias_histories': 50, 'mixed_dtype_histories': 10, 'wf_checks': 2000, 'quiescent_points': 1000, 'step_returned': 500, 'op:set_core': 5, 'op:reduce_dims': 5, 'raised_then_wf_checked': 5}
MIN_NONTRIVIAL = {'quick': 200, 'thorough': 2000}
CASE_TIMEOUT = {'quick': 240, 'thorough': 600}
MAX_TIMEOUT_FRACTION = 0.02
LINE_FUNCS = ['TT.__init__', 'TT.set_core', 'TT.reduce_dims']


def cases(tier, seed):
    rng = random.Random('C05|%d' % seed)
    T = tier == 'thorough'
    cs = []
    for i in range(160 if not T else 2000):
        cs.append({'gen': 'walk', 'steps': rng.choice((30, 60, 120, 200)) if T else rng.choice((30, 60, 100)), 'dtype': ['f64', 'f64', 'c128', 'f32'][i % 4], 'views': i % 3 == 2, 'w': i})
    names = walk.OP_NAMES
    for a in names:
        for b in names:
            cs.append({'gen': 'seq', 'ops': [a, b], 'dtype': 'f64'})
    # directed: copy-like call, then a documented in-place operation on the copy or on the original; both objects stay in existence
    for copy in COPIES:
        for inpl in ('set_core_resize', 'set_core_same', 'reduce_dims', 'scribble'):
            for target in ('copy', 'original'):
                for ttm in (False, True):
                    for rep in range(2 if not T else 8):
                        cs.append({'gen': 'copyhist', 'copy': copy, 'inplace': inpl, 'target': target, 'ttm': ttm, 'dtype': ['f64', 'c128'][rep % 2], 'views': rep % 2 == 1})
    # directed: argument objects shared between two constructor / factory calls, or modified by the caller afterwards
    for form in ARGALIAS:
        for second in ('same-args-second-object+set_core', 'caller-modifies-argument'):
            for rep in range(3 if not T else 12):
                cs.append({'gen': 'argalias', 'form': form, 'second': second, 'dtype': ['f64', 'c128', 'f32'][rep % 3]})
    # directed: operands of DIFFERENT dtypes combined by operations that concatenate core lists (the result must still be one well-formed object of one dtype)
    for form in ('kron', 'pow', 'rank1TT', 'TT(cores)', 'kron_ttm'):
        for (da, db) in (('f64', 'c128'), ('c128', 'f64'), ('f32', 'f64'), ('f32', 'c128'), ('c64', 'f64')):
            for rep in range(1 if not T else 4):
                cs.append({'gen': 'mixdtype', 'form': form, 'da': da, 'db': db, 'dtype': 'f64'})
    if T:
        cheap = walk.CHEAP_OPS
        for a in cheap:
            for b in cheap:
                for c in cheap:
                    cs.append({'gen': 'seq', 'ops': [a, b, c], 'dtype': 'f64'})
    return cs


ARGALIAS = ['TT(dense,shape)', 'TT(numpy,shape)', 'TT(dense,ttm-shape)', 'TT(cores)', 'TT(ttm-cores)', 'ones(N)', 'zeros(N)', 'eye(N)', 'randn(N,R)', 'random(N,R)', 'ones(ttm-shape)', 'rank1TT(list)', 'meshgrid(list)',
            'TT(dense,rmax-list)']


def run_argalias(case, ctx, dt):
    """Two objects are built from the SAME argument objects (shape list, core list, rank list ...), then one of them is resized in place by set_core; or one object
    is built and the caller then writes into the list it passed.  Every object must keep describing its own cores (the WF monitor decides at each return)."""
    import torchtt as tt
    from ..ctx import Raised
    w = walk.Walker(ctx, case['seed'], dt)
    rng = w.rng
    d = rng.randint(2, 3)
    N = [rng.choice((2, 3)) for _ in range(d)]
    M = [rng.choice((2, 3)) for _ in range(d)]
    form = case['form']
    g = w.g
    if form == 'TT(dense,shape)':
        A, arg = gens.values([dn.prod(N)], dt, 'gauss', g), list(N)
        mk = lambda: tt.TT(A, arg, eps=1e-12)
    elif form == 'TT(numpy,shape)':
        A, arg = gens.values([dn.prod(N)], dt, 'gauss', g).numpy(), list(N)
        mk = lambda: tt.TT(A, arg, eps=1e-12)
    elif form == 'TT(dense,ttm-shape)':
        A, arg = gens.values(M + N, dt, 'gauss', g), [(m, n) for m, n in zip(M, N)]
        mk = lambda: tt.TT(A, arg, eps=1e-12)
    elif form == 'TT(dense,rmax-list)':
        A, arg = gens.values(N, dt, 'gauss', g), [1] + [2] * (d - 1) + [1]
        mk = lambda: tt.TT(A, eps=1e-12, rmax=arg)
    elif form in ('TT(cores)', 'TT(ttm-cores)'):
        arg = gens.make_cores(N, [1] + [2] * (d - 1) + [1], dt, 'gauss', g, M=M if form == 'TT(ttm-cores)' else None)
        mk = lambda: tt.TT(arg)
    elif form in ('ones(N)', 'zeros(N)', 'eye(N)'):
        arg = list(N)
        f = {'ones(N)': tt.ones, 'zeros(N)': tt.zeros, 'eye(N)': tt.eye}[form]
        mk = lambda: f(arg, dtype=dt)
    elif form == 'ones(ttm-shape)':
        arg = [(m, n) for m, n in zip(M, N)]
        mk = lambda: tt.ones(arg, dtype=dt)
    elif form in ('randn(N,R)', 'random(N,R)'):
        arg, Rl = list(N), [1] + [2] * (d - 1) + [1]
        f = tt.randn if form == 'randn(N,R)' else tt.random
        mk = lambda: f(arg, Rl, dtype=dt)
    elif form == 'rank1TT(list)':
        arg = [gens.values([n], dt, 'gauss', g) for n in N]
        mk = lambda: tt.rank1TT(arg)
    else:
        arg = [gens.values([n], dt, 'gauss', g) for n in N]
        mk = lambda: tt.meshgrid(arg)
    x = ctx.lib(form, mk)
    if isinstance(x, (list, tuple)):
        objs = [o for o in x if isinstance(o, tt.TT)]
        x = objs[0] if objs else None
    if not isinstance(x, tt.TT):
        return
    ctx.count('argument_alias_histories')
    if case['second'].startswith('same-args'):
        y = ctx.lib(form, mk)
        if isinstance(y, (list, tuple)):
            y = [o for o in y if isinstance(o, tt.TT)][-1]
        if not isinstance(y, tt.TT):
            return
        k = rng.randrange(len(y.N))
        sh = list(y.cores[k].shape)
        sh[1] += 1
        core = gens.values(sh, y.cores[k].dtype, 'gauss', g)
        ctx.lib('set_core', lambda a: a.set_core(k, core), y, inplace=(y,))
    else:
        def scribble(lst):
            if isinstance(lst, list) and lst:
                lst[0] = (7, 7) if isinstance(lst[0], tuple) else (gens.values([1, 5, 1], dt, 'gauss', g) if hasattr(lst[0], 'shape') and lst[0].dim() == 3 else (9 if isinstance(lst[0], int) else lst[0]))
                lst.append(lst[0])
        ctx.lib('caller-writes-argument-list', lambda: scribble(arg))
        if form in ('randn(N,R)', 'random(N,R)'):
            ctx.lib('caller-writes-argument-list', lambda: scribble(Rl))
    for o in [x]:
        ctx.lib('full', lambda a: a.full(), o)
        ctx.lib('TT.add', lambda a: a + a, o)
    ctx.nontrivial(('argalias', form, case['second'], case['dtype']))


def run_mixdtype(case, ctx):
    import torchtt as tt
    rng = random.Random(case['seed'])
    g = gens.tgen(case['seed'])
    da, db = dn.dtype_of(case['da']), dn.dtype_of(case['db'])
    N1 = [rng.choice((1, 2, 3)) for _ in range(rng.randint(1, 2))]
    N2 = [rng.choice((2, 3)) for _ in range(rng.randint(1, 2))]
    form = case['form']
    if form in ('kron', 'pow'):
        a, b = gens.make_tt(N1, gens.rank_profile(rng, len(N1), 'rand', 2), da, 'gauss', g), gens.make_tt(N2, gens.rank_profile(rng, len(N2), 'rand', 2), db, 'gauss', g)
        r = ctx.lib('kron', (lambda p, q: tt.kron(p, q)) if form == 'kron' else (lambda p, q: p ** q), a, b)
    elif form == 'kron_ttm':
        a, b = gens.make_tt(N1, gens.rank_profile(rng, len(N1), 'rand', 2), da, 'gauss', g, M=N1), gens.make_tt(N2, gens.rank_profile(rng, len(N2), 'rand', 2), db, 'gauss', g, M=N2)
        r = ctx.lib('kron', lambda p, q: tt.kron(p, q), a, b)
    elif form == 'rank1TT':
        vs = [gens.values([n], da if k % 2 == 0 else db, 'gauss', g) for k, n in enumerate(N1 + N2)]
        r = ctx.lib('rank1TT', lambda: tt.rank1TT(vs))
    else:
        cs_ = gens.make_cores(N1 + N2, gens.rank_profile(rng, len(N1 + N2), 'rand', 2), da, 'gauss', g)
        cs_ = [c if k % 2 == 0 else c.to(db) for k, c in enumerate(cs_)]
        r = ctx.lib('TT(cores)', lambda: tt.TT(cs_))
    ctx.count('mixed_dtype_histories')
    if isinstance(r, tt.TT):
        ctx.lib('full', lambda t: t.full(), r)
        ctx.lib('TT.add', lambda t: t + t, r)
        ctx.lib('norm', lambda t: t.norm(), r)
        ctx.nontrivial(('mixdtype', form, case['da'], case['db']))


COPIES = ['clone', 'detach', 'cpu', 'to', 'conj', 'neg', 'pos', 'round0', 't_or_slice', 'mul1']


def run_copyhist(case, ctx, dt):
    import torchtt
    from ..ctx import Raised
    w = walk.Walker(ctx, case['seed'], dt, views=case.get('views', False))
    N = [w.rng.choice((1, 2, 3)) for _ in range(w.rng.randint(1, 4))]
    M = [w.rng.choice((1, 2, 3)) for _ in N] if case['ttm'] else None
    x = w.fresh(N, M=M)
    if not isinstance(x, torchtt.TT):
        return
    fns = {'clone': lambda a: a.clone(), 'detach': lambda a: a.detach(), 'cpu': lambda a: a.cpu(), 'to': lambda a: a.to(dtype=dt), 'conj': lambda a: a.conj(), 'neg': lambda a: -a,
           'pos': lambda a: +a, 'round0': lambda a: a.round(0.0), 't_or_slice': (lambda a: a.t()) if case['ttm'] else (lambda a: a[tuple(slice(None) for _ in a.N)]), 'mul1': lambda a: a * 1}
    y = ctx.lib(case['copy'], fns[case['copy']], x)
    if not isinstance(y, torchtt.TT):
        return
    tgt = y if case['target'] == 'copy' else x
    k = w.rng.randrange(len(tgt.N))
    sh = list(tgt.cores[k].shape)
    if case['inplace'] == 'set_core_resize':
        sh[1] += w.rng.choice((1, 2))
        if tgt.is_ttm and w.rng.random() < 0.5:
            sh[2] += 1
    if case['inplace'].startswith('set_core'):
        core = gens.values(sh, tgt.cores[k].dtype, 'gauss', w.g)
        r = ctx.lib('set_core', lambda a: a.set_core(k, core), tgt, inplace=(tgt,))
    elif case['inplace'] == 'reduce_dims':
        r = ctx.lib('reduce_dims', lambda a: a.reduce_dims(), tgt, inplace=(tgt,))
    else:
        def scribble(a):
            for lst in (a.N, a.R, a.M if a.is_ttm else []):      # the lists handed out by the accessors (not the plain attribute .shape)
                if isinstance(lst, list) and lst:
                    lst[0] = 7
        r = ctx.lib('scribble', scribble, tgt)
    ctx.count('copy_then_inplace_histories')
    # both objects are used once more (a stale description makes these fail or disagree); the monitors judge the results
    for o in (x, y):
        z = ctx.lib('full', lambda a: a.full(), o)
        z = ctx.lib('TT.add', lambda a: a + a, o)
    ctx.nontrivial(('copyhist', case['copy'], case['inplace'], case['target'], case['ttm']))


def run_case(case, ctx):
    dt = dn.dtype_of(case['dtype'])
    if case['gen'] == 'copyhist':
        return run_copyhist(case, ctx, dt)
    if case['gen'] == 'argalias':
        return run_argalias(case, ctx, dt)
    if case['gen'] == 'mixdtype':
        return run_mixdtype(case, ctx)
    if case['gen'] == 'walk':
        w = walk.Walker(ctx, case['seed'], dt, views=case.get('views', False))
        for _ in range(3):
            w.admit(w.fresh(w.small_shape()))
            n3 = w.small_shape(3)
            w.admit(w.fresh(n3, M=[w.rng.choice((1, 2, 3)) for _ in n3]))
        for _ in range(case['steps']):
            w.step()
        ctx.count('walk_derived_from_inplace_or_view', w.derived)
    else:
        w = walk.Walker(ctx, case['seed'], dt)
        prev = None
        hold = []      # operands of earlier steps stay in existence (and under the WF monitor) until the end of the sequence
        for name in case['ops']:
            hold.extend(w.pool)
            if prev is not None:
                import torchtt
                w.pool = [prev] if isinstance(prev, torchtt.TT) else []
                if isinstance(prev, (list, tuple)):
                    w.pool = [p for p in prev if isinstance(p, torchtt.TT)][:3]
            r = w.step(name)
            from ..ctx import Raised
            prev = None if (r is None or isinstance(r, Raised)) else r
            # in-place operations return None: keep their receiver as the object fed forward
            if prev is None and name in ('set_core', 'reduce_dims', 'watch', 'scribble') and w.pool:
                prev = w.pool[0]
