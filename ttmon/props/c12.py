"""C12 - AMEn solve returns a solution with relative residual at most eps (bounded progress: default sweep budget)."""
import math
import random
import torch

from .. import dense as dn
from .. import gens
from .. import hooks
from ..ctx import Raised

PROP = 'C12'
C_EPS = 10.0
COND_MAX = 1e3
RULE = ('cases = amen_solve(A,b,eps,...) (python backend, default nswp) on systems generated with a CERTIFIED conditioning bound (the dense matrix is formed by the harness and '
        'cond_2 <= 1e3 is asserted before the case is admitted): SPD I + c*B^T B, diagonally dominant I + eps*B (non-symmetric), Kronecker-sum Laplacians (+shift), Kronecker-sum upwind convection-diffusion operators (non-symmetric tridiagonal; with and without the band_diagonal=1 option); order 2..5, '
        'mode sizes 2..12 (dense dimension <= 700), operator ranks 1..5, right-hand sides of rank 1..4 (random or A@x_true), eps log-uniform in [1e-10,1e-3]; configurations '
        '{preconditioner None,c,r} x {max_full 500, 0} x {local_solver 1 (GMRES), 2 (BiCGSTAB)} x {x0 None, random, exact solution, zero tensor, one zero core, norm 1e12 / 1e-14} x internal seeds. Oracle: shape; dense residual '
        '||A x - b|| <= 10*eps*||b||. The REACH tracer records which local solver actually ran in each execution (gmres_restart / BiCGSTAB_reset / direct, apply_prec) and a '
        'configuration whose intended solver was not observed is not counted. A logical-step monitor (calls of torch.rand inside one boundary call) turns an unbounded retry loop '
        'into a violation instead of a wall-clock timeout. distinct = (class, structure, configuration, eps decade, seed index); non-trivial = intended local solver observed.')
ASSUMPTIONS = ['"well conditioned" is made checkable as cond_2(A) <= 1e3 on the dense matrix; nothing is claimed outside', '"small constant C" fixed a priori as 10',
               'default nswp=22, kickrank=4, local_iterations=40, resets=2']
REQUIRED_REACH = ['solvers:amen_solve', 'solvers:_amen_solve_python', '_iterative_solvers:gmres_restart', '_iterative_solvers:BiCGSTAB_reset', 'solvers:_LinearOp.apply_prec',
                  'solvers:_LinearOp.matvec', 'solvers:_local_product']
REQUIRED_COUNTS = {'ran:gmres': 5, 'ran:bicgstab': 5, 'ran:direct': 5, 'ran:prec': 5, 'class:spd': 1, 'class:dd': 1, 'class:lap': 1, 'class:cd': 1, 'class:kron': 5, 'class:kronecker-sum-with-unequal-band-widths': 5, 'option:band_diagonal': 5, 'operator-cores-noncontiguous': 20, 'x0:user': 1, 'x0:near': 3, 'x0:degenerate': 4, 'executions': 150}
LINE_FUNCS = ['_amen_solve_python', 'BiCGSTAB_reset', 'gmres', '_LinearOp.matvec']
CASE_TIMEOUT = {'quick': 300, 'thorough': 600}
MAX_TIMEOUT_FRACTION = 0.0
RAND_CALL_BOUND = 3000


class LoopBound(Exception):
    pass


def cases(tier, seed):
    rng = random.Random('C12|%d' % seed)
    T = tier == 'thorough'
    cs = []
    nstruct = 180 if not T else 1500
    k = 2 if not T else 6
    for i in range(nstruct):
        cls = ['spd', 'dd', 'lap', 'cd'][i % 4]
        d = rng.choice([2, 2, 3, 3, 4, 5])
        while True:
            N = [rng.randint(2, 12 if d <= 3 else 5) for _ in range(d)]
            if dn.prod(N) <= 700:
                break
        base = {'gen': 'solve', 'cls': cls, 'N': N, 'RB': gens.rank_profile(rng, d, 'rand', 2 if cls == 'spd' else 4), 'Rb': gens.rank_profile(rng, d, 'rand', 4),
                'rhs': ['random', 'image'][(i // 4) % 2], 'cfac': 10 ** rng.uniform(-0.3, 2.0), 'shift': [0.0, 0.1][(i // 8) % 2], 'band': 1 if (cls in ('lap', 'cd') and (i // 4) % 2 == 0) else -1, 'eps': 10 ** rng.uniform(-10, -3),
                'vseed': rng.randrange(2 ** 40)}
        confs = []
        for prec in (None, 'c', 'r'):
            for max_full in (500, 0):
                for ls in (1, 2):
                    if max_full == 500 and ls == 2 and prec is not None:
                        continue
                    confs.append((prec, max_full, ls))
        rng.shuffle(confs)
        for ci, (prec, max_full, ls) in enumerate(confs[:(4 if not T else len(confs))]):
            for j in range(k if ci < 2 else 1):
                c = dict(base)
                c.update({'prec': prec, 'max_full': max_full, 'ls': ls, 'x0': ['none', 'user'][(i + ci + j) % 2], 'sidx': j})
                cs.append(c)
        if i % 3 == 0:
            # degenerate "arbitrary" initial guesses: the zero tensor, a guess with one zero core, a guess of huge / tiny norm
            for ci, (prec, max_full, ls) in enumerate(confs[:2]):
                c = dict(base)
                c.update({'prec': prec, 'max_full': max_full, 'ls': ls, 'x0': ['zero', 'zerocore', 'huge', 'tiny'][(i // 3 + ci) % 4], 'sidx': 0})
                cs.append(c)
        if base['rhs'] == 'image':
            # the caller already knows the solution: x0 = x_true (every local residual is zero from the first sweep on)
            for (prec, max_full, ls) in confs[:3]:
                c = dict(base)
                c.update({'prec': prec, 'max_full': max_full, 'ls': ls, 'x0': 'exact', 'sidx': 0})
                cs.append(c)
            # ... or knows it almost: x0 = x_true + a relative perturbation between eps and sqrt(eps)
            for (prec, max_full, ls) in confs[3:5]:
                c = dict(base)
                c.update({'prec': prec, 'max_full': max_full, 'ls': ls, 'x0': 'near', 'sidx': 0})
                cs.append(c)
    # directed: operators of TT-rank ONE (Kronecker products of small well-conditioned matrices) with right-hand sides of rank 1..4
    for i in range(36 if not T else 300):
        d = rng.choice([2, 3, 3, 4])
        N = [rng.randint(2, 6) for _ in range(d)]
        confs = [(p_, mf_, ls_) for p_ in (None, 'c', 'r') for mf_ in (500, 0) for ls_ in (1, 2) if not (mf_ == 500 and ls_ == 2 and p_ is not None)]
        prec, max_full, ls = confs[i % len(confs)]
        cs.append({'gen': 'solve', 'cls': 'kron', 'N': N, 'RB': [1] * (d + 1), 'Rb': gens.rank_profile(rng, d, 'rand', 4), 'rhs': ['random', 'image'][i % 2], 'kfac': ['spd', 'dd'][(i // 2) % 2], 'cfac': 1.0,
                   'shift': 0.0, 'band': -1, 'eps': 10 ** rng.uniform(-10, -3), 'vseed': rng.randrange(2 ** 40), 'prec': prec, 'max_full': max_full, 'ls': ls, 'x0': ['none', 'user'][(i // 4) % 2], 'sidx': 0})
    # directed: right-hand sides that are (numerically) orthogonal to the default initial guess (all ones) along one mode - e.g. a zero-mean factor
    for i in range(36 if not T else 300):
        cls = ['dd', 'lap', 'spd'][i % 3]
        d = rng.choice([2, 3, 3, 4])
        N = [rng.randint(3, 7) for _ in range(d)]
        confs = [(p_, mf_, ls_) for p_ in (None, 'c', 'r') for mf_ in (500, 0) for ls_ in (1, 2) if not (mf_ == 500 and ls_ == 2 and p_ is not None)]
        prec, max_full, ls = confs[i % len(confs)]
        cs.append({'gen': 'solve', 'cls': cls, 'N': N, 'RB': gens.rank_profile(rng, d, 'rand', 2), 'Rb': [1] * (d + 1), 'rhs': 'zero-mean-factor', 'zm_mode': [d - 1, 0, d // 2][(i // 3) % 3], 'cfac': 10 ** rng.uniform(-0.3, 1.5),
                   'shift': 0.0, 'band': -1, 'eps': 10 ** rng.uniform(-9, -4), 'vseed': rng.randrange(2 ** 40), 'prec': prec, 'max_full': max_full, 'ls': ls, 'x0': 'none', 'sidx': 0})
    # directed: larger Laplacians at tight eps with forced iterative local solves - local Krylov solves that need restarts
    big = [[12, 12, 12], [8, 12, 12]] if not T else [[12, 12, 12], [8, 12, 12], [12, 12, 6], [10, 12, 12], [6, 6, 6, 6]]
    for N in big:
        for (prec, ls) in ((None, 1), (None, 2), ('c', 1)):
            for j in range(1 if not T else 3):
                cs.append({'gen': 'solve', 'cls': 'lap', 'N': N, 'RB': [1] * (len(N) + 1), 'Rb': [1] + [2] * (len(N) - 1) + [1], 'rhs': 'random', 'cfac': 1.0, 'shift': 0.0,
                           'eps': 1e-10, 'vseed': 777 + j, 'prec': prec, 'max_full': 0, 'ls': ls, 'x0': 'none', 'sidx': j})
    # Kronecker sums whose 1-D operators have DIFFERENT band widths (tridiagonal, diagonal, pentadiagonal in any order), default options for the band structure
    for i in range(18 if tier == 'quick' else 150):
        d = rng.choice([2, 3, 3])
        N = [rng.randint(4, 8) for _ in range(d)]
        oned = [rng.choice(('tri', 'diag', 'penta')) for _ in range(d)]
        if i % 3 == 0:
            oned = (['tri'] * (d - 1) + ['diag']) if i % 2 else (['penta'] + ['tri'] * (d - 1))
        if all(o == 'diag' for o in oned):
            oned[0] = 'tri'
        cs.append({'gen': 'solve', 'cls': ['lap', 'cd'][i % 2], 'N': N, 'RB': [1] * (d + 1), 'Rb': [1] + [rng.randint(1, 3) for _ in range(d - 1)] + [1], 'rhs': ['random', 'image'][(i // 2) % 2],
                   'cfac': 1.3, 'shift': 0.0, 'band': -1, 'eps': 10 ** rng.uniform(-9, -4), 'vseed': rng.randrange(2 ** 40), 'prec': [None, 'c', 'r'][i % 3], 'max_full': [0, 0, 500][(i // 3) % 3],
                   'ls': [1, 2][(i // 2) % 2], 'x0': 'none', 'sidx': 0, 'oned': oned})
    # ALMOST symmetric operators: diffusion plus a weak upwind convection term (relative asymmetry 1e-3 .. 1e-7) at tight eps - a shortcut for symmetric systems taken on an
    # "approximately symmetric" test leaves a residual of the size of the asymmetry
    for i in range(12 if tier == 'quick' else 96):
        d = rng.choice([2, 3])
        cs.append({'gen': 'solve', 'cls': 'cd', 'N': [rng.randint(4, 9) for _ in range(d)], 'RB': [1] * (d + 1), 'Rb': [1] + [rng.randint(1, 3) for _ in range(d - 1)] + [1], 'rhs': ['random', 'image'][i % 2],
                   'cfac': 1.0, 'conv': [1e-5, 1e-6, 1e-7, 1e-3][i % 4], 'shift': [0.0, 0.1][(i // 4) % 2], 'band': -1, 'eps': [1e-10, 1e-9][(i // 2) % 2], 'vseed': rng.randrange(2 ** 40),
                   'prec': [None, 'c', None, 'r'][(i // 3) % 4], 'max_full': [500, 500, 0][i % 3], 'ls': [1, 2][(i // 2) % 2], 'x0': ['none', 'user'][(i // 6) % 2], 'sidx': 0})
    # the largest systems of the quantifier (run_big)
    for i in range(2 if tier == 'quick' else 6):
        cs.append({'gen': 'solve', 'big': True, 'cls': 'lap', 'N': [12] * 5 if i % 2 == 0 else [12, 11, 12, 10, 12], 'Rb': [1, 4, 4, 4, 4, 1], 'shift': 0.2, 'eps': 1e-10, 'prec': ['r', 'c', None][i % 3],
                   'vseed': rng.randrange(2 ** 40), 'sidx': 0, 'RB': [1] * 6, 'rhs': 'random', 'cfac': 1.0, 'band': -1, 'max_full': 500, 'ls': 1, 'x0': 'none'})
    # directed (defect #43): tiny right-hand sides with preconditioned GMRES local solves on small Laplacian-like systems - the first local tolerance is far below
    # machine precision relative to the initial local residual
    for i in range(12 if tier == 'quick' else 60):
        cs.append({'gen': 'solve', 'cls': 'lap', 'N': [[3, 4, 2, 2], [4, 3, 3], [2, 5, 2, 3]][i % 3], 'RB': [[1, 4, 3, 2, 1], [1, 3, 2, 1], [1, 2, 3, 2, 1]][i % 3],
                   'Rb': [[1, 2, 4, 3, 1], [1, 3, 3, 1], [1, 2, 2, 2, 1]][i % 3], 'rhs': 'random', 'cfac': 12.0, 'shift': 0.0, 'band': 1, 'eps': [2.3e-7, 1e-9, 1e-5][i % 3],
                   'vseed': 925323160042 + 1000 * i, 'prec': ['c', 'r'][i % 2], 'max_full': 0, 'ls': 1, 'x0': 'none', 'sidx': 0, 'bscale': [1e-24, 1e-22, 1e-30, 1e-26][i % 4]})
    return cs


def laplace_tt(N, shift, dt, conv=0.0, oned=None):
    """Kronecker sum of 1-D operators tridiag(-1-conv, 2+conv, -1): Laplacian for conv=0, upwind convection-diffusion (non-symmetric,
    diagonally dominant) otherwise."""
    import torchtt
    d = len(N)
    cores = []
    for k, n in enumerate(N):
        L = (2 + conv) * torch.eye(n, dtype=dt) - torch.diag(torch.ones(n - 1, dtype=dt), 1) - (1 + conv) * torch.diag(torch.ones(n - 1, dtype=dt), -1)
        kind1 = oned[k] if oned else 'tri'
        if kind1 == 'diag':          # a positive diagonal 1-D operator (a reaction / mass term): band width 0
            L = torch.diag(1.0 + 2.0 * torch.linspace(0.0, 1.0, n, dtype=dt))
        elif kind1 == 'penta' and n >= 3:       # band width 2, still diagonally dominant
            L = L + 0.5 * torch.eye(n, dtype=dt) - 0.25 * torch.diag(torch.ones(n - 2, dtype=dt), 2) - 0.25 * torch.diag(torch.ones(n - 2, dtype=dt), -2)
        if k == 0:
            L = L + shift * torch.eye(n, dtype=dt)
        I = torch.eye(n, dtype=dt)
        if d == 1:
            c = L.reshape(1, n, n, 1)
        elif k == 0:
            c = torch.stack([L, I], dim=-1).reshape(1, n, n, 2)
        elif k == d - 1:
            c = torch.stack([I, L], dim=0).reshape(2, n, n, 1)
        else:
            c = torch.zeros(2, n, n, 2, dtype=dt)
            c[0, :, :, 0] = I
            c[1, :, :, 0] = L
            c[1, :, :, 1] = I
        cores.append(c)
    return torchtt.TT(cores)


def build_system(case, ctx, g):
    import torchtt
    dt = torch.float64
    N, cls = case['N'], case['cls']
    d = len(N)
    n = dn.prod(N)
    if cls in ('lap', 'cd'):
        A = laplace_tt(N, case['shift'], dt, conv=case.get('conv', 0.5 + (case['cfac'] % 1.0)) if cls == 'cd' else 0.0, oned=case.get('oned'))
        if case.get('oned'):
            ctx.count('class:kronecker-sum-with-unequal-band-widths')
    elif cls == 'kron':
        # A = A_1 (x) ... (x) A_d with cond(A_k) <= 1e3^(1/d): SPD factors I + G^T G / |G|^2 * c, or diagonally dominant I + 0.3 G / |G|
        fac = []
        cmax = 1e3 ** (1.0 / d)
        for n_ in N:
            G = gens.values([n_, n_], dt, 'gauss', g)
            if case.get('kfac') == 'spd':
                Gn = G.T @ G
                Ak = torch.eye(n_, dtype=dt) + (0.5 * (cmax - 1.0)) * Gn / float(torch.linalg.matrix_norm(Gn, 2))
            else:
                Ak = torch.eye(n_, dtype=dt) + 0.3 * G / float(torch.linalg.matrix_norm(G, 2))
            fac.append(Ak.reshape(1, n_, n_, 1))
        A = torchtt.TT(fac)
    else:
        B = gens.make_tt(N, case['RB'], dt, 'gauss', g, M=N)
        Bm = dn.D(B).reshape(n, n)
        I = torchtt.eye(N, dtype=dt)
        if cls == 'spd':
            lam = float(torch.linalg.matrix_norm(Bm, 2)) ** 2
            c = case['cfac'] / max(lam, 1e-300)
            BtB = ctx.call('TTM@TTM', lambda b: b.t() @ b, B)
            A = ctx.call('TTM+TTM', lambda i, m: i + c * m, I, BtB)
        else:
            nb = float(torch.linalg.matrix_norm(Bm, 2))
            e = min(0.5, case['cfac'] / 200.0) / max(nb, 1e-300)
            A = ctx.call('TTM+TTM', lambda i, m: i + e * m, I, B)
    # memory layout of the operator (and, below, of the right-hand side): same numbers, other strides - what t(), round() and slicing hand out
    layout = ['contiguous', 'contiguous', 'permuted-views', 't().t()', 'buffer-views', 'round(0)'][case['vseed'] % 6]
    if layout == 'permuted-views':
        A = torchtt.TT([c.permute(*reversed(range(c.dim()))).contiguous().permute(*reversed(range(c.dim()))) for c in A.cores])
    elif layout == 't().t()':
        A = ctx.call('t', lambda a: a.t().t(), A)
    elif layout == 'buffer-views':
        A = torchtt.TT(gens.buffer_views([c.clone() for c in A.cores]))
    elif layout == 'round(0)':
        A = ctx.call('round', lambda a: a.round(1e-15), A)
    ctx.count('operator-layout:' + layout)
    ctx.count('operator-cores-noncontiguous' if any(not c.is_contiguous() for c in A.cores) else 'operator-cores-contiguous')
    Am = dn.D(A).reshape(n, n)
    cond = float(torch.linalg.cond(Am, 2))
    if case['rhs'] == 'image':
        xt = gens.make_tt(N, [1] + [min(2, r) for r in case['Rb'][1:-1]] + [1], dt, 'gauss', g)
        b = ctx.call('TTM@TT', lambda a, x: a @ x, A, xt)
        case['_xt'] = xt
    elif case['rhs'] == 'zero-mean-factor':
        fs = [gens.values([n_], dt, 'gauss', g) for n_ in N]
        fs[case['zm_mode']] = fs[case['zm_mode']] - fs[case['zm_mode']].mean()
        b = torchtt.rank1TT(fs)
    else:
        b = gens.make_tt(N, case['Rb'], dt, 'gauss', g)
    if layout in ('permuted-views', 't().t()'):
        b = torchtt.TT([c.permute(2, 1, 0).contiguous().permute(2, 1, 0) for c in b.cores])
    # overall magnitude of the right-hand side (the contract is relative: ||Ax-b|| <= C eps ||b|| at 1e-15 as at 1)
    bscale = case.get('bscale') or [1.0, 1.0, 1.0, 1e-15, 1e8, 1e-8, 1e16, 1e-24][(case['vseed'] // 7) % 8]
    if bscale != 1.0:
        b = torchtt.TT([c * bscale if k == 0 else c for k, c in enumerate(b.cores)])
        if case['rhs'] == 'image':
            case['_xt'] = torchtt.TT([c * bscale if k == 0 else c for k, c in enumerate(case['_xt'].cores)])
    ctx.count('rhs-magnitude:%g' % bscale)
    return A, b, Am, cond


def run_big(case, ctx):
    """The largest systems of the quantifier (order 5, mode size 12: 248832 unknowns): shifted Laplacian (cond_2 known in closed form), rank-4 right-hand side, default max_full -
    the interior local systems exceed every size threshold of the local solvers.  No dense matrix: the residual is formed in TT arithmetic (A @ x - b, decided by C03/C04)."""
    import math as _m
    import torchtt
    g = gens.tgen(case['vseed'])
    N = case['N']
    d = len(N)
    dt = torch.float64
    A = laplace_tt(N, case['shift'], dt)
    lmin = sum(2 - 2 * _m.cos(_m.pi / (n_ + 1)) for n_ in N) + case['shift']
    lmax = sum(2 - 2 * _m.cos(n_ * _m.pi / (n_ + 1)) for n_ in N) + case['shift']
    if not lmax / lmin <= COND_MAX:
        ctx.count('rejected:cond>1e3')
        return
    b = gens.make_tt(N, case['Rb'], dt, 'gauss', g)
    ctx.count('class:lap')
    ctx.count('class:largest-systems(12^5)')
    ctx.count('executions')
    kw = {'eps': case['eps'], 'use_cpp': False, 'preconditioner': case['prec']}
    conf = 'prec=%s/max_full=default' % case['prec']
    key = 'amen_solve/lap-large/' + conf
    what = 'amen_solve shifted Laplacian N=%s cond2=%.1f rb=%s eps=%.1e %s' % (N, lmax / lmin, case['Rb'], case['eps'], conf)
    x = ctx.lib('amen_solve', lambda a_, b_: torchtt.solvers.amen_solve(a_, b_, **kw), A, b)
    if isinstance(x, Raised):
        ctx.viol(key + '/clause=raises:%s@%s' % (x.type, x.func), '%s raised %r' % (what, x))
        return
    if not isinstance(x, torchtt.TT) or x.is_ttm or [int(n_) for n_ in x.N] != list(N):
        ctx.viol(key + '/clause=shape', '%s: result %s' % (what, hooks.signature(x)))
        return
    r = ctx.call('TTM@TT-TT', lambda a_, x_, b_: a_ @ x_ - b_, A, x, b)
    ratio = float(r.norm()) / float(b.norm()) / case['eps']
    ctx.metric('residual_over_eps/large', ratio)
    if not ratio <= C_EPS:
        ctx.viol(key + '/clause=residual>10eps', '%s: ||Ax-b||/||b|| = %.3g * eps; result ranks %s' % (what, ratio, [int(r_) for r_ in x.R]))
    ctx.nontrivial(('amen_solve-large', tuple(N), conf, int(math.log10(case['eps']))))


def run_case(case, ctx):
    import torchtt
    if case.get('big'):
        return run_big(case, ctx)
    g = gens.tgen(case['vseed'])
    A, b, Am, cond = build_system(case, ctx, g)
    N = case['N']
    n = dn.prod(N)
    if not cond <= COND_MAX:
        ctx.count('rejected:cond>1e3')
        return
    ctx.metric('certified_cond2', cond)
    ctx.count('class:' + case['cls'])
    ctx.count('executions')
    eps = case['eps']
    x0 = None
    if case['x0'] == 'exact':
        x0 = case['_xt']
        ctx.count('x0:exact')
    if case['x0'] == 'near':
        xt = case['_xt']
        pert = gens.make_tt(N, [1] + [2] * (len(N) - 1) + [1], torch.float64, 'gauss', g)
        rel = 10 ** (0.75 * math.log10(case['eps']))         # between eps and sqrt(eps)
        x0 = ctx.call('TT+TT', lambda a, b: a + b * (rel * dn.fro(dn.D(a)) / max(dn.fro(dn.D(b)), 1e-300)), xt, pert)
        ctx.count('x0:near')
    if case['x0'] == 'user':
        rr = random.Random(case['vseed'] + 5)
        x0 = gens.make_tt(N, [1] + [rr.randint(1, 3) for _ in N[1:]] + [1], torch.float64, 'gauss', g)
        ctx.count('x0:user')
    if case['x0'] in ('zero', 'zerocore', 'huge', 'tiny'):
        rr = random.Random(case['vseed'] + 6)
        x0c = gens.make_cores(N, [1] + [rr.randint(1, 3) for _ in N[1:]] + [1], torch.float64, 'gauss', g)
        if case['x0'] == 'zero':
            x0c = [c * 0 for c in x0c]
        elif case['x0'] == 'zerocore':
            j0 = rr.randrange(len(N))
            x0c[j0] = x0c[j0] * 0
        else:
            x0c[0] = x0c[0] * (1e12 if case['x0'] == 'huge' else 1e-14)
        x0 = torchtt.TT(x0c)
        ctx.count('x0:degenerate')
        ctx.count('x0:' + case['x0'])
    bvec = dn.D(b).reshape(n)
    nb = float(torch.linalg.norm(bvec))
    conf = 'prec=%s/max_full=%d/local_solver=%d%s' % (case['prec'], case['max_full'], case['ls'], '/band_diagonal=%d' % case['band'] if case.get('band', -1) >= 0 else '')
    key = 'amen_solve/%s/%s' % (case['cls'], conf)
    if case['rhs'] == 'zero-mean-factor':
        ctx.count('rhs:orthogonal-to-default-guess')
    what = 'amen_solve %s N=%s rA=%s rb=%s cond2=%.1f eps=%.2e %s x0=%s rhs=%s seed-index %d' % (case['cls'], N, [int(r) for r in A.R], [int(r) for r in b.R], cond, eps, conf, case['x0'], case['rhs'], case['sidx'])
    names = ['_iterative_solvers:gmres_restart', '_iterative_solvers:BiCGSTAB_reset', 'solvers:_LinearOp.apply_prec', 'solvers:_LinearOp.matvec']
    before = hooks.reach_counts(names)
    kw = dict(eps=eps, max_full=case['max_full'], local_solver=case['ls'], preconditioner=case['prec'], use_cpp=False)
    if case.get('band', -1) >= 0:
        kw['band_diagonal'] = case['band']      # the cores are tridiagonal: the documented band-structure option
        ctx.count('option:band_diagonal')
    orig_rand = torch.rand
    calls = [0]

    def counted_rand(*a, **k):
        calls[0] += 1
        if calls[0] > RAND_CALL_BOUND:
            raise LoopBound('torch.rand called %d times inside one amen_solve call' % calls[0])
        return orig_rand(*a, **k)
    torch.rand = counted_rand
    try:
        if x0 is not None:
            x = ctx.lib('amen_solve(x0)', lambda a, c, z: torchtt.solvers.amen_solve(a, c, x0=z, **kw), A, b, x0)
        else:
            x = ctx.lib('amen_solve', lambda a, c: torchtt.solvers.amen_solve(a, c, **kw), A, b)
    finally:
        torch.rand = orig_rand
    after = hooks.reach_counts(names)
    dg, db, dp = (after[names[i]] - before[names[i]] for i in range(3))
    ran = []
    if dg:
        ran.append('gmres')
    if db:
        ran.append('bicgstab')
    if not dg and not db:
        ran.append('direct')
    for r in ran:
        ctx.count('ran:' + r)
    if dp:
        ctx.count('ran:prec')
        ctx.count('ran:prec-' + str(case['prec']))
    if isinstance(x, Raised):
        if x.type == 'LoopBound':
            ctx.viol(key + '/clause=unbounded-loop@%s' % x.func, '%s: %s (at %s)' % (what, x.msg, x.where))
        else:
            ctx.viol(key + '/clause=raises:%s@%s' % (x.type, x.func), '%s raised %r' % (what, x))
        return
    if not isinstance(x, torchtt.TT) or x.is_ttm or [int(v) for v in x.N] != list(N):
        ctx.viol(key + '/clause=shape', '%s: result %s' % (what, hooks.signature(x)))
        return
    try:
        xv = dn.D(x).reshape(n)
    except ValueError as e:
        ctx.viol(key + '/clause=ill-formed-result', '%s: %s' % (what, e))
        return
    res = float(torch.linalg.norm(Am @ xv - bvec))
    ratio = res / (eps * nb) if nb > 0 else (0.0 if res == 0 else float('inf'))
    ctx.metric('residual_over_eps/' + ('bicgstab' if db else ('gmres' if dg else 'direct')), ratio)
    if not ratio <= C_EPS:
        ctx.viol(key + '/clause=residual>10eps', '%s: ||Ax-b||/||b|| = %.3e = %.3g * eps; result ranks %s; local solvers observed: %s (gmres calls %d, bicgstab calls %d, apply_prec calls %d)' % (
            what, res / nb if nb else float('nan'), ratio, [int(r) for r in x.R], ran, dg, db, dp))
    intended = 'direct' if case['max_full'] == 500 and all(True for _ in [0]) else ('gmres' if case['ls'] == 1 else 'bicgstab')
    if case['max_full'] == 0 and intended not in ran:
        ctx.count('intended_solver_not_observed')
    else:
        ctx.nontrivial((case['cls'], tuple(N), tuple(int(r) for r in A.R), conf, case['x0'], case['rhs'], int(math.log10(eps)), case['sidx']))
