"""Builds cpp/cpp_ext.cpp of the repository's CURRENT WORKING TREE into torchttcpp.so (plain and ASan+UBSan).

Same flags as setup.py except -std=c++20 (the PyTorch 2.14 headers refuse C++17, so setup.py itself cannot build in
this sandbox - stated deviation).  Outputs are cached under /verif/.cache/cpp/<sha256 of cpp/* + flags + torch version>;
a cache hit means byte-identical inputs.  Scratch build directories are removed.
"""
import os
import sys
import glob
import time
import shutil
import hashlib
import subprocess
import sysconfig

HERE = os.path.dirname(os.path.dirname(os.path.abspath(__file__)))
REPO = os.environ.get('TORCHTT_REPO', '/repo')
CACHE = os.path.join(HERE, '.cache', 'cpp')


def _torch_dir():
    import importlib.util
    spec = importlib.util.find_spec('torch')
    return os.path.dirname(spec.origin)


def flags(kind):
    base = ['-fPIC', '-std=c++20', '-w', '-Wno-c++11-narrowing', '-g', '-DTORCH_API_INCLUDE_EXTENSION_H', '-DTORCH_EXTENSION_NAME=torchttcpp']
    if kind == 'plain':
        return base + ['-O2'], []
    return base + ['-O1', '-fno-omit-frame-pointer', '-fsanitize=address,undefined'], ['-fsanitize=address,undefined']


def source_hash(kind):
    h = hashlib.sha256()
    for f in sorted(glob.glob(os.path.join(REPO, 'cpp', '*'))):
        if os.path.isfile(f):
            h.update(os.path.basename(f).encode())
            h.update(open(f, 'rb').read())
    cf, lf = flags(kind)
    h.update(' '.join(cf + lf).encode())
    try:
        ver = open(os.path.join(_torch_dir(), 'version.py')).read()
    except OSError:
        ver = ''
    h.update(ver.encode())
    return h.hexdigest()[:20]


def build(kind='plain', timeout=1500):
    """-> dict(path=<dir containing torchttcpp.so>, cached=bool, seconds=float, hash=str) or dict(error=...)"""
    hs = source_hash(kind)
    out = os.path.join(CACHE, kind + '-' + hs)
    so = os.path.join(out, 'torchttcpp.so')
    if os.path.exists(so):
        return {'path': out, 'cached': True, 'seconds': 0.0, 'hash': hs, 'kind': kind}
    T = _torch_dir()
    pyinc = sysconfig.get_paths()['include']
    tmp = os.path.join(CACHE, 'build-%s-%d' % (kind, os.getpid()))
    shutil.rmtree(tmp, ignore_errors=True)
    os.makedirs(tmp)
    cf, lf = flags(kind)
    t0 = time.time()
    try:
        obj = os.path.join(tmp, 'cpp_ext.o')
        cmd = ['g++'] + cf + ['-I' + os.path.join(T, 'include'), '-I' + os.path.join(T, 'include', 'torch', 'csrc', 'api', 'include'), '-I' + pyinc,
                              '-c', os.path.join(REPO, 'cpp', 'cpp_ext.cpp'), '-o', obj]
        r = subprocess.run(cmd, capture_output=True, text=True, timeout=timeout)
        if r.returncode != 0:
            return {'error': 'compile failed: ' + r.stderr[-1500:], 'kind': kind}
        so_tmp = os.path.join(tmp, 'torchttcpp.so')
        cmd = ['g++', '-shared', obj, '-o', so_tmp, '-L' + os.path.join(T, 'lib'), '-lc10', '-ltorch', '-ltorch_cpu', '-ltorch_python',
               '-Wl,-rpath,' + os.path.join(T, 'lib'), '-lopenblas', '-llapack'] + lf
        r = subprocess.run(cmd, capture_output=True, text=True, timeout=timeout)
        if r.returncode != 0:
            return {'error': 'link failed: ' + r.stderr[-1500:], 'kind': kind}
        os.makedirs(out, exist_ok=True)
        shutil.move(so_tmp, so)
        return {'path': out, 'cached': False, 'seconds': round(time.time() - t0, 1), 'hash': hs, 'kind': kind}
    except subprocess.TimeoutExpired:
        return {'error': 'build timed out', 'kind': kind}
    finally:
        shutil.rmtree(tmp, ignore_errors=True)


def sanitizer_preload():
    libs = []
    for name in ('libasan.so', 'libubsan.so'):
        p = subprocess.run(['g++', '-print-file-name=' + name], capture_output=True, text=True).stdout.strip()
        if p and os.path.exists(p):
            libs.append(os.path.realpath(p))
    return ' '.join(libs)


if __name__ == '__main__':
    print(build(sys.argv[1] if len(sys.argv) > 1 else 'plain'))
