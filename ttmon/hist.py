"""History value oracle: the operations of a value property, executed inside random call histories.

The per-property oracles (props/cXX.py) judge an operation on operands the harness has just built.  Here the same operations run on
whatever a history has produced - results of earlier calls, views, copies, objects modified in place by set_core / reduce_dims and
everything derived from them - and the returned value is compared with a dense model evaluated on the operands AS THEY ARE AT THE CALL
(contracted by the harness immediately before it).  A result that depends on anything but the current value of its operands (a cache that
was not invalidated, state shared between two objects, an operand silently modified by an earlier call) differs from that model.
The deciding comparison uses a deliberately generous roundoff allowance (1e4 u times the size of the quantities combined): this oracle is
after wrong state, the per-operation oracles are after ulps.
"""
import random

from . import dense as dn
from . import walk

RULE_SUFFIX = (' Plus HISTORY WALKS (ttmon/hist.py): the operations of this property executed inside random call histories over a pool of objects (views, copies, results of earlier calls; '
               'in-place set_core / reduce_dims / raw core writes in between; a call re-issued after an in-place change of one of its operands; every sixth walk starts with objects that have one mode of 65 .. 257) and compared with a dense model of the operands as they are at the call.')

OWN = {
    'C02': ['round'],
    'C03': ['add', 'sub', 'mul', 'bcast', 'scalar', 'neg', 'pos', 'kron', 'full'],
    'C04': ['matmul', 't', 'add', 'sub', 'mul', 'scalar', 'neg', 'kron', 'full', 'convert'],
    'C07': ['sum', 'dot', 'norm', 'bilinear'],
    'C08': ['getitem', 'getitem_bare', 'apply_mask'],
    'C09': ['cat', 'pad', 'diag', 'mprod', 'convert'],
    'C10': ['reshape', 'permute'],
    'C11': ['fast_matvec', 'dmrg_hadamard', 'amen_mv', 'amen_mm'],
}
INPLACE = ['set_core', 'reduce_dims', 'scribble', 'core_write', 'core_write']
FILLER = ['add', 'sub', 'mul', 'scalar', 'neg', 'matmul', 'kron', 'round', 'getitem', 'getitem_ttm', 'sum', 'reshape', 'permute', 'cat', 'pad', 'diag', 'mprod', 'convert', 'factory', 'TT(dense)',
          'TT(dense,shape)', 'qtt', 'bcast']


def cases(prop, tier, seed):
    T = tier == 'thorough'
    rng = random.Random('hist|%s|%d' % (prop, seed))
    return [{'gen': 'hist', 'steps': rng.choice((40, 80, 120)) if T else rng.choice((30, 60)), 'dtype': ['f64', 'c128', 'f64', 'f32'][i % 4], 'views': i % 2 == 1, 'w': i, 'long': i % 6 == 5}
            for i in range(60 if not T else 900)]


def run(prop, case, ctx):
    dt = dn.dtype_of(case['dtype'])
    own = OWN[prop]
    w = walk.Walker(ctx, case['seed'], dt, views=case.get('views', False), judge=own, nswp=None if prop == 'C11' else 3)
    for _ in range(2):
        w.admit(w.fresh(w.small_shape()))
        n3 = w.small_shape(3)
        w.admit(w.fresh(n3, M=[w.rng.choice((1, 2, 3)) for _ in n3]))
    if case.get('long'):
        # objects with one long mode (65 .. 257) join the pool: size-dependent code paths (blocked evaluation, thresholds) are reached by the same judged operations
        L = w.rng.choice((65, 70, 100, 129, 257))
        shp = w.rng.choice(([L], [L, 2], [2, L], [2, L, 3]))
        w.admit(w.fresh(list(shp), view='plain'))
        w.admit(w.fresh(list(shp), M=[1 if n > 4 else w.rng.choice((1, 2)) for n in shp] if w.rng.random() < 0.5 else [w.rng.choice((1, 2, 3)) if n > 4 else 1 for n in shp], view='plain'))
        ctx.count('history_walks_with_a_long_mode')
    ctx.count('history_walks')
    for _ in range(case['steps']):
        u = w.rng.random()
        if u < 0.12:
            w.repeat()
            continue
        name = w.rng.choice(own) if u < 0.55 else (w.rng.choice(INPLACE) if u < 0.75 else w.rng.choice(FILLER))
        w.step(name)
