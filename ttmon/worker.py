"""Worker process: runs a shard of a property's cases under the monitors and journals every case.

usage: python -m ttmon.worker <prop> <tier> <seed> <shard> <nshards> <outfile> [start_pos]
The journal line {"s": idx} is flushed *before* a case is invoked, so a crash (signal) or hang is
attributed to its case by the parent.
"""
import sys
import os
import json
import time
import signal
import hashlib
import importlib
import traceback


def case_seed(prop, case, idx, seed):
    h = hashlib.sha256(('%s|%s|%d|%d' % (prop, case.get('gen', ''), idx, seed)).encode()).digest()
    return int.from_bytes(h[:6], 'big')


def load_prop(prop):
    return importlib.import_module('ttmon.props.' + prop.lower())


def setup_backend(mod):
    """Give a property module the chance to put a freshly built extension on sys.path before torchtt is imported."""
    if hasattr(mod, 'pre_import'):
        mod.pre_import()


def run_one(mod, mon, prop, case, idx, seed, verbose=False):
    import torch
    from .ctx import Ctx
    case = dict(case)
    case.setdefault('seed', case_seed(prop, case, idx, seed))
    ctx = Ctx(mon, prop, case, verbose=verbose)
    mon.reset_case()
    torch.manual_seed(case['seed'] % (2 ** 31))
    mod.run_case(case, ctx)
    mon.quiesce('end-of-case')
    return ctx


def main(argv):
    prop, tier, seed, shard, nshards, outfile = argv[0], argv[1], int(argv[2]), int(argv[3]), int(argv[4]), argv[5]
    start_pos = int(argv[6]) if len(argv) > 6 else 0
    mod = load_prop(prop)
    setup_backend(mod)
    import torch
    torch.set_num_threads(1)
    from . import hooks
    from .ctx import CaseTimeout
    mon = hooks.Monitor()
    reach = hooks.Reach(getattr(mod, 'LINE_FUNCS', ()))
    if os.environ.get('TTMON_NO_REACH') != '1':
        reach.start()
    hooks.REACH = reach
    cases = mod.cases(tier, seed)
    if os.environ.get('TTMON_CASE_LIMIT'):
        cases = cases[:int(os.environ['TTMON_CASE_LIMIT'])]
    if os.environ.get('TTMON_CASE_STRIDE'):
        cases = cases[::int(os.environ['TTMON_CASE_STRIDE'])]
    mine = list(range(shard, len(cases), nshards))
    # the monitors run a gc pass at every case boundary: keep the (possibly 100k) case descriptors and the imported modules out of it
    import gc
    gc.collect()
    gc.freeze()
    per_case_timeout = float(getattr(mod, 'CASE_TIMEOUT', {}).get(tier, 120))

    def on_alarm(signum, frame):
        raise CaseTimeout()
    signal.signal(signal.SIGALRM, on_alarm)

    out = open(outfile, 'a')

    def emit(o):
        out.write(json.dumps(o, default=str) + '\n')
        out.flush()

    def summary(final):
        emit({'summary': True, 'final': final, 'reach': reach.summary(), 'counters': dict(mon.counters),
              'calllog': mon.calllog, 'ncases_total': len(cases), 'nmine': len(mine)})

    t_last = time.time()
    for pos in range(start_pos, len(mine)):
        idx = mine[pos]
        case = cases[idx]
        emit({'s': idx, 'pos': pos})
        rec = {'i': idx, 'pos': pos}
        t0 = time.time()
        try:
            signal.setitimer(signal.ITIMER_REAL, per_case_timeout)
            ctx = run_one(mod, mon, prop, case, idx, seed)
            signal.setitimer(signal.ITIMER_REAL, 0)
            rec.update(st='ok', v=ctx.viols, g=sorted(ctx.sigs), m=ctx.metrics, c=ctx.counts)
        except CaseTimeout:
            signal.setitimer(signal.ITIMER_REAL, 0)
            rec.update(st='timeout')
        except Exception:
            signal.setitimer(signal.ITIMER_REAL, 0)
            rec.update(st='error', tb=traceback.format_exc()[-3000:])
        wf, imm = mon.take_violations()
        if wf:
            rec['wf'] = wf
        if imm:
            rec['imm'] = imm
        rec['t'] = round(time.time() - t0, 4)
        emit(rec)
        if time.time() - t_last > 20:
            summary(False)
            t_last = time.time()
    summary(True)
    reach.stop()
    out.close()


if __name__ == '__main__':
    main(sys.argv[1:])
