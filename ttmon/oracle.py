"""Shared oracle helpers (dense comparison with exact / roundoff modes)."""
import torch
from . import dense as dn
from .ctx import Raised

ROUND_C = 1e3     # "equal up to roundoff": |delta|_F <= ROUND_C * u * S_rep


def compare(ctx, key, got, ref, exact, u, scale, what=''):
    """Compare dense `got` with dense reference `ref`.
    exact -> bit-equality required; else Frobenius distance <= ROUND_C*u*scale.
    Returns True when equal.  Records the violation with clause 'shape' or 'value'."""
    if tuple(got.shape) != tuple(ref.shape):
        ctx.viol(key + '/clause=shape', '%s: result shape %s, dense reference shape %s' % (what, list(got.shape), list(ref.shape)))
        return False
    if exact:
        if dn.bit_equal(got, ref):
            ctx.count('exact_comparisons')
            return True
        ctx.viol(key + '/clause=value-exact', '%s: int-exact input, result differs from dense reference: max|diff|=%.3e\n got=%s\n ref=%s' % (
            what, dn.max_abs_diff(got, ref), _show(got), _show(ref)))
        return False
    g = dn.to_up(got)
    r = dn.to_up(ref)
    if g.dtype != r.dtype:
        g = g.to(torch.complex128)
        r = r.to(torch.complex128)
    err = dn.fro(g - r) if g.numel() else 0.0
    tol = ROUND_C * u * max(scale, 1e-300)
    ctx.metric('roundoff_err_over_allowance', err / tol if tol > 0 else 0.0)
    ctx.count('roundoff_comparisons')
    if not (err <= tol):
        ctx.viol(key + '/clause=value', '%s: ||got-ref||_F=%.3e > allowance %.3e (u=%.1e, S_rep=%.3e)\n got=%s\n ref=%s' % (
            what, err, tol, u, scale, _show(got), _show(ref)))
        return False
    return True


def _show(t, limit=24):
    t = t.detach()
    if t.numel() <= limit:
        return str(t.tolist())
    return 'tensor%s (first entries %s...)' % (list(t.shape), t.reshape(-1)[:8].tolist())


def expect_tt(ctx, key, res, what=''):
    """The outcome of a valid expression must be a TT object, not an exception."""
    import torchtt
    if isinstance(res, Raised):
        ctx.viol(key + '/clause=raises:%s@%s' % (res.type, res.func), '%s raised on a valid input: %r' % (what, res))
        return False
    if not isinstance(res, torchtt.TT):
        ctx.viol(key + '/clause=returns-non-TT', '%s returned %s' % (what, type(res).__name__))
        return False
    return True


def check_dtype(ctx, key, res, dtype, what=''):
    bad = [str(c.dtype) for c in res.cores if c.dtype != dtype]
    if bad:
        ctx.viol(key + '/clause=dtype', '%s: operand dtype %s, result core dtypes %s' % (what, dtype, bad))
        return False
    return True


def check_ranks(ctx, key, res, expected, what=''):
    got = [int(r) for r in res.R]
    if got != list(expected):
        ctx.viol(key + '/clause=ranks', '%s: result ranks %s, documented structure gives %s' % (what, got, list(expected)))
        return False
    return True
