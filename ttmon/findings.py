"""Known-findings classifier.  /verif/known_findings.json is read-only at run time.

entry: {"property": "C09", "key": "<mechanism key>", "status": "open"|"fixed", "commit": "...", "what": "..."}
A violation whose key equals the key of an *open* entry is printed as KNOWN-FINDING and does not fail the
run; 'fixed' entries suppress nothing.  Keys are mechanism signatures produced by the oracles
(operation / structural class / failed clause).
"""
import json
import os

PATH = os.path.join(os.path.dirname(os.path.dirname(os.path.abspath(__file__))), 'known_findings.json')


def load():
    try:
        with open(PATH) as f:
            data = json.load(f)
    except FileNotFoundError:
        return []
    return data.get('findings', [])


def open_keys(prop):
    return {e['key']: e for e in load() if e.get('status') == 'open' and e.get('property') == prop}
