"""Global monitors attached to the real torchtt from outside (no source hooks).

WF     structural well-formedness of every live TT object, checked at quiescent points        (decides C05)
IMM    operand immutability + value stability of every live TT object, bit-exact              (decides C06)
REACH  sys.monitoring tracer: which torchtt functions / lines actually executed
CALLLOG boundary events (op, structural signature, outcome)

A *quiescent point* is a return of control to the harness: the end of every Monitor.call().  Library
internals call each other directly, so transient states inside an operation are never examined.
"""
import sys
import weakref
import collections
import torch

from . import dense as dn

REACH = None               # the worker's Reach instance (per-case deltas of function call counts are read from it)
MAX_FULL_NUMEL = 20000      # full()-based WF clause is skipped above this dense size


def _is_tt(o):
    import torchtt
    return isinstance(o, torchtt.TT)


def tt_args(args, kwargs):
    """All TT objects among (possibly nested one level in list/tuple) positional/keyword args."""
    out = []

    def visit(o, where):
        if _is_tt(o):
            out.append((where, o))
        elif isinstance(o, (list, tuple)):
            for i, e in enumerate(o):
                if _is_tt(e):
                    out.append(('%s[%d]' % (where, i), e))
    for i, a in enumerate(args):
        visit(a, 'arg%d' % i)
    for k, v in (kwargs or {}).items():
        visit(v, k)
    return out


def signature(o):
    """Structural signature of a value (for call logs / distinctness), never the data."""
    if _is_tt(o):
        try:
            if len(o.cores) == 0:
                return 'TT(None)'
            if o.is_ttm:
                return 'TTM(M=%s,N=%s,R=%s,%s)' % (o.M, o.N, [int(r) for r in o.R], dn.dtype_name(o.cores[0].dtype))
            return 'TT(N=%s,R=%s,%s)' % (o.N, [int(r) for r in o.R], dn.dtype_name(o.cores[0].dtype))
        except Exception as e:  # ill-formed object
            return 'TT(<unreadable:%s>)' % type(e).__name__
    if torch.is_tensor(o):
        return 'tensor(%s,%s)' % (list(o.shape), dn.dtype_name(o.dtype))
    if isinstance(o, (list, tuple)):
        return '[' + ','.join(signature(e) for e in o[:8]) + (',...' if len(o) > 8 else '') + ']'
    if isinstance(o, (int, float, complex, str, bool)) or o is None:
        return repr(o)
    if isinstance(o, slice):
        return 'slice(%s,%s,%s)' % (o.start, o.stop, o.step)
    if o is Ellipsis:
        return '...'
    return type(o).__name__


# ------------------------------------------------------------------------------------------------ WF

def wf_clauses(obj, with_full=True):
    """Return the list of failed well-formedness clauses of a TT object (empty = well formed)."""
    bad = []
    cores = getattr(obj, 'cores', None)
    if not isinstance(cores, list):
        return ['cores-not-a-list']
    if len(cores) == 0:
        return []   # TT(None): the documented empty placeholder, no dense value (stated limitation)
    if not all(torch.is_tensor(c) for c in cores):
        return ['core-not-a-tensor']
    dims = sorted({c.dim() for c in cores})
    if dims not in ([3], [4]):
        return ['core-dims-mixed-or-invalid:%s' % dims]
    ttm = dims == [4]
    for i in range(len(cores) - 1):
        if cores[i].shape[-1] != cores[i + 1].shape[0]:
            bad.append('rank-chain-broken')
            break
    if cores[0].shape[0] != 1 or cores[-1].shape[-1] != 1:
        bad.append('boundary-rank-not-1')
    try:
        if bool(obj.is_ttm) != ttm:
            bad.append('is_ttm-disagrees-with-cores')
    except Exception:
        bad.append('is_ttm-unreadable')
    trueN = [int(c.shape[-2]) for c in cores]
    trueM = [int(c.shape[1]) for c in cores] if ttm else None
    trueR = [int(c.shape[0]) for c in cores] + [int(cores[-1].shape[-1])]
    try:
        N = obj.N
        if [int(n) for n in N] != trueN:
            bad.append('N-stale')
    except Exception:
        N = None
        bad.append('N-unreadable')
    try:
        R = obj.R
        if len(R) != len(trueN) + 1:
            bad.append('R-wrong-length')
        elif [int(r) for r in R] != trueR:
            bad.append('R-stale')
    except Exception:
        bad.append('R-unreadable')
    if ttm:
        try:
            if [int(m) for m in obj.M] != trueM:
                bad.append('M-stale')
        except Exception:
            bad.append('M-unreadable')
    try:
        sh = obj.shape
        want = [(m, n) for m, n in zip(trueM, trueN)] if ttm else trueN
        got = [tuple(int(v) for v in s) if isinstance(s, (tuple, list)) else int(s) for s in sh]
        if got != want:
            bad.append('shape-stale')
    except Exception:
        bad.append('shape-unreadable')
    # lists handed out by N/M/R must be copies
    try:
        for name in ('N', 'R') + (('M',) if ttm else ()):
            before = list(getattr(obj, name))
            lst = getattr(obj, name)
            lst.append(12345)
            if list(getattr(obj, name)) != before:
                bad.append('%s-not-a-copy' % name)
                lst.pop()
    except Exception:
        pass
    if with_full and not bad:
        numel = dn.prod(trueN) * (dn.prod(trueM) if ttm else 1)
        if numel <= MAX_FULL_NUMEL:
            try:
                f = obj.full()
                want = (trueM if ttm else []) + trueN
                if list(f.shape) != want:
                    bad.append('full-shape!=M+N')
            except Exception as e:
                bad.append('full-raises:%s' % type(e).__name__)
    return bad


# ------------------------------------------------------------------------------------------------ IMM

class Snap:
    __slots__ = ('data', 'ids', 'list_id', 'versions', 'ptrs', 'N', 'M', 'R', 'is_ttm', 'shape', 'dtypes', 'req')

    def __init__(self, obj):
        cores = obj.cores
        self.list_id = id(cores)
        self.ids = [id(c) for c in cores]
        self.data = [c.detach().clone() for c in cores]
        self.versions = [c._version for c in cores]
        self.ptrs = [c.data_ptr() for c in cores]
        self.dtypes = [c.dtype for c in cores]
        self.req = [c.requires_grad for c in cores]
        self.is_ttm = _safe(lambda: obj.is_ttm)
        self.N = _safe(lambda: list(obj.N))
        self.R = _safe(lambda: [int(r) for r in obj.R])
        self.M = _safe(lambda: list(obj.M)) if self.is_ttm is True else None
        self.shape = _safe(lambda: list(obj.shape))


def _safe(f):
    try:
        return f()
    except Exception as e:
        return '<%s>' % type(e).__name__


def _teq(a, b):
    if a.shape != b.shape or a.dtype != b.dtype:
        return False
    return dn.bit_equal(a, b)


def imm_diff(obj, snap):
    """Clauses describing how obj differs from its snapshot (empty = bit-identical).  Also returns
    'how' info (in-place write vs rebinding) for evidence."""
    bad = []
    how = []
    cores = obj.cores
    if not isinstance(cores, list) or len(cores) != len(snap.data):
        return ['number-of-cores-changed'], how
    for k, c in enumerate(cores):
        if not torch.is_tensor(c):
            bad.append('core-not-tensor')
            continue
        if c.dtype != snap.dtypes[k]:
            bad.append('dtype-changed')
        elif tuple(c.shape) != tuple(snap.data[k].shape):
            bad.append('core-shape-changed')
        elif not _teq(c.detach(), snap.data[k]):
            bad.append('core-data-changed')
            if id(c) == snap.ids[k]:
                how.append('in-place-write(core %d, _version %d->%d)' % (k, snap.versions[k], c._version))
            else:
                how.append('core-rebound(core %d)' % k)
    cur = Snap.__new__(Snap)
    for name, f in (('N', lambda: list(obj.N)), ('R', lambda: [int(r) for r in obj.R]),
                    ('is_ttm', lambda: obj.is_ttm), ('shape', lambda: list(obj.shape))):
        v = _safe(f)
        if v != getattr(snap, name):
            bad.append('%s-changed' % name)
    if snap.is_ttm is True:
        if _safe(lambda: list(obj.M)) != snap.M:
            bad.append('M-changed')
    # de-duplicate, keep order
    seen = []
    for b in bad:
        if b not in seen:
            seen.append(b)
    return seen, how


# ------------------------------------------------------------------------------------------------ monitor

class Monitor:
    """One per worker process.  All library calls of the harness go through .call()."""

    def __init__(self):
        import torchtt
        self.torchtt = torchtt
        self.registry = weakref.WeakSet()
        self.snaps = {}           # id(obj) -> (weakref, Snap)
        self.wf_reported = set()  # ids already reported ill-formed (first-appearance attribution)
        self.counters = collections.Counter()
        self.wf_viol = []         # dicts {key, detail, step}
        self.imm_viol = []
        self.calllog = []         # bounded sample of boundary events
        self.calllog_max = 40
        self.seq = 0
        self.enabled = True
        self._orig_init = torchtt.TT.__init__
        mon = self

        def init(self_, *a, **k):
            mon._orig_init(self_, *a, **k)
            mon.registry.add(self_)
            mon.counters['tt_constructed'] += 1
        torchtt.TT.__init__ = init

    # -- lifecycle -------------------------------------------------------------------------------
    def reset_case(self):
        """Forget per-case state (called between independent cases).  Objects of earlier cases that are still
        alive (garbage not yet collected) are dropped from the registry so they cannot be attributed to this case."""
        import gc
        gc.collect()
        self.registry = weakref.WeakSet()
        self.snaps.clear()
        self.wf_reported.clear()

    def take_violations(self):
        w, i = self.wf_viol, self.imm_viol
        self.wf_viol, self.imm_viol = [], []
        return w, i

    # -- the boundary ----------------------------------------------------------------------------
    def call(self, op, fn, *args, inplace=(), resnap_all=False, **kwargs):
        """Invoke fn(*args, **kwargs) as boundary event `op`.  TT operands are snapshotted before and
        compared after (normal or exceptional return); then the quiescent-point checks run over every
        live TT object.  `inplace` lists receivers of documented in-place operations (their snapshot is
        refreshed instead of compared); `resnap_all` marks a raw write by the HARNESS itself into a core tensor (everything that
        aliases that tensor legitimately changes with it: all snapshots are refreshed, nothing is compared)."""
        self.seq += 1
        self.counters['calls'] += 1
        self.counters['op:' + op] += 1
        operands = tt_args(args, kwargs) if self.enabled else []
        pre = []
        for where, o in operands:
            if any(o is x for x in inplace):
                continue
            try:
                pre.append((where, o, Snap(o)))
            except Exception:
                pass
        ev = None
        if len(self.calllog) < self.calllog_max:
            ev = {'seq': self.seq, 'op': op, 'args': [signature(a) for a in args][:6]}
            self.calllog.append(ev)
        try:
            res = fn(*args, **kwargs)
            if ev is not None:
                ev['out'] = signature(res)
            if self.enabled and not inplace and _is_tt(res):
                # identity aliasing: a call that is not one of the documented in-place operations hands back one of its own operands - every later
                # in-place edit of the "result" is then an edit of the operand (and the other way round)
                is_operand = False
                for where, o in operands:
                    if res is o:
                        is_operand = True
                        self.counters['imm_result_is_operand'] += 1
                        self._imm_report(op, 'result', where, o, ['result-is-the-operand-object'], [])
                # ... or an object that already existed before the call (seen at an earlier quiescent point): a result handed out twice - an in-place edit of
                # one "result" is an edit of the other, so the result obtained earlier does not keep its value
                self.counters['imm_result_identity_checks'] += 1
                ent = self.snaps.get(id(res))
                if not is_operand and ent is not None and ent[0]() is res:
                    self.counters['imm_result_is_earlier_object'] += 1
                    self._imm_report(op, 'result', 'returned', res, ['result-is-an-object-handed-out-earlier'], [])
            return res
        except BaseException as e:
            if ev is not None:
                ev['out'] = 'raised ' + type(e).__name__
            raise
        finally:
            if self.enabled:
                for where, o, s in pre:
                    self.counters['imm_operand_checks'] += 1
                    bad, how = imm_diff(o, s)
                    if bad:
                        self._imm_report(op, 'operand', where, o, bad, how)
                        self.snaps[id(o)] = (weakref.ref(o), Snap(o))  # report once
                self.quiesce(op, inplace, resnap_all)

    def quiesce(self, op='quiesce', inplace=(), resnap_all=False):
        """Quiescent point: WF over all live objects; value stability of all earlier-seen objects."""
        self.counters['quiescent_points'] += 1
        live = list(self.registry)
        live_ids = set()
        for o in live:
            oid = id(o)
            live_ids.add(oid)
            fresh = False
            ent = self.snaps.get(oid)
            if ent is not None and ent[0]() is o:
                if resnap_all or any(o is x for x in inplace):
                    self.snaps[oid] = (ent[0], Snap(o))
                    self.wf_reported.discard(oid)
                    fresh = True
                else:
                    self.counters['imm_stability_checks'] += 1
                    bad, how = imm_diff(o, ent[1])
                    if bad:
                        self._imm_report(op, 'earlier-object', 'live', o, bad, how)
                        self.snaps[oid] = (ent[0], Snap(o))
                        fresh = True
            else:
                try:
                    self.snaps[oid] = (weakref.ref(o), Snap(o))
                except Exception:
                    pass
                fresh = True
            # WF: full() clause only when the object is new or has changed
            if oid not in self.wf_reported:
                self.counters['wf_checks'] += 1
                bad = wf_clauses(o, with_full=fresh)
                if bad:
                    self.wf_reported.add(oid)
                    self.wf_viol.append({'key': 'C05/%s/%s' % (op, '+'.join(bad)), 'op': op, 'clauses': bad,
                                         'detail': 'after %s: object %s ill-formed: %s' % (op, signature(o), bad),
                                         'seq': self.seq})
        for oid in [k for k in self.snaps if k not in live_ids]:
            del self.snaps[oid]

    def _imm_report(self, op, role, where, o, bad, how):
        self.imm_viol.append({'key': 'C06/%s/%s/%s' % (op, role, '+'.join(bad)), 'op': op, 'clauses': bad,
                              'detail': 'after %s: %s %s (%s) changed: %s; how: %s' % (op, role, where, signature(o), bad, how),
                              'seq': self.seq})


# ------------------------------------------------------------------------------------------------ REACH

class Reach:
    """sys.monitoring tracer restricted to torchtt's own files: per-function call counts, plus
    first-hit line coverage for the functions named in `line_funcs`."""

    TOOL = 3

    def __init__(self, line_funcs=()):
        self.calls = collections.Counter()
        self.lines = collections.defaultdict(set)
        self.executable = collections.defaultdict(set)
        self.line_funcs = set(line_funcs)
        self._names = {}
        self.active = False

    def _name(self, code):
        n = self._names.get(code)
        if n is None:
            fn = code.co_filename
            if '/torchtt/' in fn:
                n = fn.rsplit('/torchtt/', 1)[1][:-3] + ':' + code.co_qualname
            else:
                n = ''
            self._names[code] = n
        return n

    def start(self):
        mon = sys.monitoring
        try:
            mon.use_tool_id(self.TOOL, 'ttmon-reach')
        except ValueError:
            return
        E = mon.events

        def on_start(code, off):
            n = self._name(code)
            if not n:
                return mon.DISABLE
            self.calls[n] += 1
            if n.split(':', 1)[1] in self.line_funcs or n in self.line_funcs:
                if code not in self._line_enabled:
                    self._line_enabled.add(code)
                    self.executable[n].update(l for _, _, l in code.co_lines() if l is not None and l != code.co_firstlineno)
                    mon.set_local_events(self.TOOL, code, E.LINE)

        def on_line(code, line):
            self.lines[self._name(code)].add(line)
            return mon.DISABLE
        self._line_enabled = set()
        mon.register_callback(self.TOOL, E.PY_START, on_start)
        mon.register_callback(self.TOOL, E.LINE, on_line)
        mon.set_events(self.TOOL, E.PY_START)
        self.active = True

    def stop(self):
        if self.active:
            sys.monitoring.set_events(self.TOOL, 0)
            sys.monitoring.free_tool_id(self.TOOL)
            self.active = False

    def summary(self):
        return {'calls': dict(self.calls), 'lines': {k: sorted(v) for k, v in self.lines.items()},
                'executable': {k: sorted(v) for k, v in self.executable.items()}}


def reach_counts(names):
    """current call counts of the given torchtt functions (0 when the tracer is off)"""
    if REACH is None:
        return {n: 0 for n in names}
    return {n: REACH.calls.get(n, 0) for n in names}
