"""Shared structure + value generators.  Structure first, values second."""
import random
import itertools
import torch

from . import dense as dn


def tgen(seed):
    g = torch.Generator()
    g.manual_seed(int(seed) % (2 ** 62))
    return g


def is_complex(dtype):
    return dtype in (torch.complex64, torch.complex128)


def values(shape, dtype, vals, g, lo=-3, hi=3):
    """A tensor of the given shape: 'int' small integers (Gaussian integers when complex), 'gauss' N(0,1),
    'pos' uniform in [0.5,1.5], 'zero'."""
    shape = list(shape)
    if vals == 'int':
        re = torch.randint(lo, hi + 1, shape, generator=g).to(torch.float64)
        if is_complex(dtype):
            im = torch.randint(lo, hi + 1, shape, generator=g).to(torch.float64)
            return torch.complex(re, im).to(dtype)
        return re.to(dtype)
    if vals == 'zero':
        return torch.zeros(shape, dtype=dtype)
    if vals == 'pos':
        return (torch.rand(shape, generator=g, dtype=torch.float64) + 0.5).to(dtype)
    if is_complex(dtype):
        x = torch.complex(torch.randn(shape, generator=g, dtype=torch.float64), torch.randn(shape, generator=g, dtype=torch.float64))
        return x.to(dtype)
    return torch.randn(shape, generator=g, dtype=torch.float64).to(dtype)


def make_cores(N, R, dtype, vals, g, M=None, scales=None, lo=-3, hi=3):
    cores = []
    for k in range(len(N)):
        sh = [R[k], N[k], R[k + 1]] if M is None else [R[k], M[k], N[k], R[k + 1]]
        c = values(sh, dtype, vals, g, lo, hi)
        if scales is not None:
            c = c * scales[k]
        cores.append(c)
    return cores


def make_tt(N, R, dtype=torch.float64, vals='int', g=None, M=None, scales=None, lo=-3, hi=3):
    import torchtt
    return torchtt.TT(make_cores(N, R, dtype, vals, g, M=M, scales=scales, lo=lo, hi=hi))


def buffer_views(cores, lead=3):
    """The same cores laid out one after the other in ONE flat buffer (after `lead` unused elements): every core is a contiguous view with its own
    storage offset; equally shaped cores have equal shape AND strides and differ only in the offset (parameter-buffer / stacked-cores layout)."""
    total = lead + sum(c.numel() for c in cores)
    buf = torch.zeros(total, dtype=cores[0].dtype)
    out, off = [], lead
    for c in cores:
        n = c.numel()
        buf[off:off + n] = c.reshape(-1)
        out.append(buf[off:off + n].view(c.shape))
        off += n
    return out


def abs_bound(*objs):
    """Upper bound on every partial sum any association order can form when contracting the cores:
    the max entry of the contraction of the entrywise-absolute cores (product over the given objects)."""
    b = 1.0
    for o in objs:
        cores = o.cores if hasattr(o, 'cores') else o
        b *= float(dn.dense_of_cores([c.detach().abs().to(torch.float64) for c in cores]).max())
    return b


def exact_ok(dtype, bound):
    """Is integer arithmetic with partial sums below `bound` exact in this dtype?"""
    lim = 2.0 ** 22 if dtype in (torch.float32, torch.complex64) else 2.0 ** 50
    return bound < lim


def rank_profile(rng, d, kind, rmax=3):
    if d == 1:
        return [1, 1]
    if kind == 'one':
        inner = [1] * (d - 1)
    elif kind == 'uniform':
        inner = [rng.randint(2, rmax)] * (d - 1)
    elif kind == 'distinct':
        pool = list(range(2, max(3, rmax) + d))
        rng.shuffle(pool)
        inner = pool[:d - 1]
    else:
        inner = [rng.randint(1, rmax) for _ in range(d - 1)]
    return [1] + inner + [1]


def modes(rng, d, pool=(1, 2, 3, 4, 5, 7), distinct=True):
    pool = list(pool)
    if distinct and d <= len(pool):
        return rng.sample(pool, d)
    return [rng.choice(pool) for _ in range(d)]


def all_structures(orders, sizes, ranks):
    """Bounded-exhaustive enumeration of (N, R) for tensors."""
    out = []
    for d in orders:
        for N in itertools.product(sizes, repeat=d):
            for Rin in itertools.product(ranks, repeat=d - 1):
                out.append((list(N), [1] + list(Rin) + [1]))
    return out


def orth(n, g, dtype=torch.float64):
    q, _ = torch.linalg.qr(values([n, n], dtype, 'gauss', g))
    return q


def superdiag(sizes, s, g, dtype=torch.float64, rotate=True):
    """sum_j s_j e_j x ... x e_j rotated by a random orthogonal/unitary matrix per mode: every sequential
    unfolding has exactly the singular values s (requires len(s) <= min(sizes))."""
    d = len(sizes)
    r = len(s)
    A = torch.zeros(list(sizes), dtype=dtype)
    for j, sj in enumerate(s):
        A[(j,) * d] = sj
    if rotate:
        for k in range(d):
            Q = orth(sizes[k], g, dtype)
            A = torch.tensordot(A, Q, dims=([k], [1]))      # contracted mode goes last
            A = A.movedim(-1, k)
    return A


def sub_rng(case, salt=''):
    return random.Random('%s|%s' % (case.get('seed', 0), salt))
