"""Evidence writer: /verif/evidence/<id>.json per EVIDENCE.schema.json (self-validated when jsonschema is importable)."""
import json
import os

HERE = os.path.dirname(os.path.dirname(os.path.abspath(__file__)))
SCHEMA = '/root/.vp/EVIDENCE.schema.json'


def _clean(o):
    if isinstance(o, float):
        if o != o or o in (float('inf'), float('-inf')):
            return str(o)
        return o
    if isinstance(o, dict):
        return {str(k): _clean(v) for k, v in o.items()}
    if isinstance(o, (list, tuple)):
        return [_clean(v) for v in o]
    return o


def write(prop, tier, seed, coverage, assumptions, wall_s, violations, level='exploration'):
    body = {'property_id': prop, 'tier': tier, 'seed': int(seed), 'level': level,
            'coverage': _clean(coverage), 'assumptions': list(assumptions), 'wall_s': round(float(wall_s), 2),
            'violations': int(violations)}
    d = os.path.join(HERE, 'evidence')
    if os.environ.get('TORCHTT_REPO', '/repo') != '/repo':
        d = os.path.join(HERE, '.work', 'evidence-of-scratch-trees')      # runs against a scratch tree (seeded changes, own mutants) never touch the committed evidence
    os.makedirs(d, exist_ok=True)
    path = os.path.join(d, prop + '.json')
    with open(path, 'w') as f:
        json.dump(body, f, indent=1, default=str)
    try:
        import jsonschema
        with open(SCHEMA) as f:
            jsonschema.validate(body, json.load(f))
    except ImportError:
        _builtin_validate(body)
    except FileNotFoundError:
        _builtin_validate(body)
    return path


def _builtin_validate(b):
    c = b['coverage']
    assert isinstance(c.get('evaluations'), int) and isinstance(c.get('distinct_nontrivial'), int)
    assert isinstance(c.get('rule'), str) and isinstance(c.get('samples'), list)
